package checks

import (
	"verif/harness"
)

func init() {
	Runners["C01"] = fileRunnerEnum(func(p *harness.Program) Result { return RunC01(p, false) })
	harness.Specs["C01"] = &harness.PropSpec{
		ID: "C01", Test: "TestC01", Kind: "file", Level: "fault_enumeration",
		Quick: 2000, Thorough: 4000,
		Rule: "evaluations = generated histories; each history (1-10 transactions quick, up to 30 thorough; alloc/overwrite/free/flush/checkpoint/" +
			"rollback/failed commits/reopens/overflow-area transactions/max-size changes on open, bounded and unbounded, any WAL limit and initial meta area) is executed once on the simulated disk, then for EVERY " +
			"op-log position after file creation all crash images are built: durable prefix + every subset of the un-synced page writes/truncates " +
			"(all 2^p subsets for p<=MaxFull, otherwise none/all/only-one/all-but-one/prefix/suffix families + random subsets) + torn header writes; each image " +
			"is reopened through the normal open path and must expose exactly an allowed model state (identified by header txid), pass the allocator " +
			"partition check, and (none/all images and every n-th other) run a suffix of transactions + clean reopen; on every n-th of those the suffix " +
			"(3 commits + 1 rollback) is recorded on the recovered image and ITS crash images are enumerated too (crash during the first transactions after a crash " +
			"recovery: recovered state or one of the suffix commits, counters recrash-histories / images-second-level); distinct_nontrivial counts distinct " +
			"histories that produced >=1 image inside a commit window with a proper (non-empty, non-full) subset kept or a torn header; image counts are in coverage.images*",
		Assume: []string{
			"page-granular loss: writes not covered by a completed Sync may each independently be lost; a completed Sync makes all earlier writes and size changes durable",
			"sector tearing inside data pages is not modelled; the 84 byte header write may be cut at any byte",
			"SyncNone is excluded (documented as unsafe); crashes during file creation are outside the quantifier",
		},
	}
}

func C01Params(thorough bool) harness.GenParams {
	p := harness.GenParams{MaxItems: 10, MaxOps: 8, Reopen: true, Stall: true, MaxPages: 96, NoFill: false, Overflow: true}
	if thorough {
		p.MaxItems, p.MaxOps, p.MaxPages = 30, 10, 200
		p.HugeTx = true // histories with > 1024 queued page writes (expensive: thousands of pages per image)
	}
	return p
}

func crashParams(thorough bool, seed uint64) harness.CrashParams {
	if thorough {
		cuts := make([]int, 0, 83)
		for i := 1; i < 84; i++ {
			cuts = append(cuts, i)
		}
		return harness.CrashParams{MaxFull: 7, Random: 40, TornCuts: cuts, SuffixEvery: 12, MaxImages: 20000, Seed: seed, RecrashEvery: 150}
	}
	return harness.CrashParams{MaxFull: 5, Random: 6, TornCuts: []int{1, 20, 40, 60, 83}, SuffixEvery: 50, MaxImages: 12000, Seed: seed, RecrashEvery: 120}
}

// RunC01 records one history and checks all its crash images.
func RunC01(p *harness.Program, thorough bool) Result {
	o := harness.RunOpts{CheckContent: true, TrackCommits: true, Drain: aux(p, 0)&1 == 0}
	r, v := harness.NewRunner(p, o)
	if v != nil {
		return Result{V: v}
	}
	if v = r.Run(); v != nil {
		return Result{V: v, Counters: r.Counters}
	}
	var st harness.CrashStats
	cp := crashParams(thorough || aux(p, 2) == 1, aux(p, 1))
	if r.Disk.LogLen() > 4000 && cp.MaxImages > 3000 {
		// a huge transaction (thousands of page writes, megabytes per image): bounded sample
		cp.MaxImages = 3000
		r.Counters["huge-history-image-cap"]++
	}
	v = harness.CheckCrashImages(r, cp, &st)
	c := r.Counters
	c["images"] = st.Images
	c["images-in-commit-window"] = st.InWindow
	c["images-torn"] = st.Torn
	c["images-nontrivial"] = st.Nontrivial
	c["images-suffix-run"] = st.Suffixes
	c["positions"] = st.Positions
	c["recrash-histories"] = st.Recrashes
	c["images-second-level"] = st.Images2
	c["recovered-new-in-window"] = st.RecoveredTo["new"]
	c["recovered-old-in-window"] = st.RecoveredTo["old"]
	c["torn-valid-skipped"] = st.TornValid
	c["enumeration-capped"] = st.Capped
	return Result{V: v, Counters: c, Nontrivial: st.Nontrivial > 0 && st.InWindow > 0}
}
