package checks

import (
	"testing"

	"pgregory.net/rapid"

	"verif/harness"
)

func TestC01(t *testing.T) {
	th := thorough()
	params := C01Params(th)
	checkFile(t, "C01", func(rt *rapid.T) *harness.Program {
		p := harness.GenProgram(rt, params)
		// sometimes the history contains an open that changes the maximum size
		// (internal maintenance transactions at open time are crash points too)
		if rapid.IntRange(0, 4).Draw(rt, "resize") == 0 && len(p.Items) > 0 {
			minPages := uint(65536 / p.Cfg.PageSize)
			newMax := minPages + uint(rapid.IntRange(0, 200).Draw(rt, "newMax"))
			if rapid.IntRange(0, 5).Draw(rt, "unbounded") == 0 {
				newMax = 0
			}
			at := rapid.IntRange(1, len(p.Items)).Draw(rt, "resizeAt")
			items := append([]harness.Item{}, p.Items[:at]...)
			items = append(items, harness.Item{Reopen: &harness.Reopen{Mode: 2, NewMax: newMax, Prealloc: rapid.IntRange(0, 2).Draw(rt, "prealloc") == 0}})
			p.Items = append(items, p.Items[at:]...)
		}
		thr := uint64(0)
		if th {
			thr = 1
		}
		p.Aux = []uint64{uint64(rapid.IntRange(0, 3).Draw(rt, "nodrain")), rapid.Uint64().Draw(rt, "crashseed"), thr}
		return p
	}, func(p *harness.Program) Result { return RunC01(p, th) })
}
