package checks

import (
	"testing"

	"pgregory.net/rapid"

	"verif/harness"
)

func TestC01(t *testing.T) {
	th := thorough()
	params := C01Params(th)
	checkFile(t, "C01", func(rt *rapid.T) *harness.Program {
		p := harness.GenProgram(rt, params)
		thr := uint64(0)
		if th {
			thr = 1
		}
		p.Aux = []uint64{uint64(rapid.IntRange(0, 3).Draw(rt, "nodrain")), rapid.Uint64().Draw(rt, "crashseed"), thr}
		return p
	}, func(p *harness.Program) Result { return RunC01(p, th) })
}
