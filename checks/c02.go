package checks

import (
	"encoding/json"

	"verif/harness"
)

func init() {
	Runners["C02"] = func(raw json.RawMessage) (Result, error) {
		var p harness.IsoProgram
		if err := json.Unmarshal(raw, &p); err != nil {
			return Result{}, err
		}
		return Guard(func() Result { return RunC02(&p) }), nil
	}
	harness.Specs["C02"] = &harness.PropSpec{
		ID: "C02", Test: "TestC02", Kind: "iso", Level: "exploration", Race: true,
		Quick: 2400, Thorough: 20000,
		Rule: "generated scenarios under the race detector: a prefix history, then rounds of one writer transaction (full op grammar, optional Flush, commit | " +
			"rollback | close) with up to 4 read transactions begun before it or between its operations; readers are lazy (pages first touched at generated later " +
			"stages: after the writer's ops, after its Flush, while its Commit is parked by the disk gate at a generated disk call - data write k, data sync, header " +
			"write, header sync - and after release while the Commit waits for them); further readers call Begin while the commit is parked; oracle: every page and " +
			"the root read by a reader equal the model state committed when it began, at every stage and on re-reads; no Begin returns while a commit is in progress; " +
			"Commit does not return while older readers are open; readers begun during the commit see exactly the state after it; race detector silent; " +
			"non-trivial = a reader alive across a commit or abort that overwrote/freed pages of its snapshot and first-touched a page after the writer flushed; " +
			"distinct = distinct scenario hash",
		Assume: []string{
			"interleavings are explored at the granularity of API calls, disk calls and lock states; finer preemption inside in-memory sections is left to the race detector",
			"the simulated mmap is ordinary memory, so a write to a page a reader is reading is reported as a data race",
		},
	}
}

// RunC02 executes a snapshot isolation scenario.
func RunC02(p *harness.IsoProgram) Result {
	v, c, nt := harness.RunIso(p)
	return Result{V: v, Counters: c, Nontrivial: nt}
}
