package checks

import (
	"testing"

	"pgregory.net/rapid"

	"verif/harness"
)

func genIso(rt *rapid.T, thorough bool) *harness.IsoProgram {
	params := harness.GenParams{MaxItems: 4, MaxOps: 8, MaxPages: 256, NoFill: true}
	// a quarter of the scenarios: a small bounded file that is completely full, committed overwrites whose
	// write-ahead pages live in the overflow area, writers that use the overflow area and often abort
	// (rollback truncates the file while readers are active)
	full := rapid.IntRange(0, 3).Draw(rt, "fullFile") == 0
	if full {
		params = harness.GenParams{MaxItems: 4, MaxOps: 8, MaxPages: 96, Bounded: 1, Overflow: true, AbortHeavy: true}
	}
	p := &harness.IsoProgram{Cfg: harness.GenConfig(rt, params)}
	// prefix: make sure there are written pages
	p.Prefix = append(p.Prefix, harness.Item{Tx: &harness.Tx{Ops: []harness.Op{
		{K: harness.OpAlloc, A: rapid.IntRange(3, 14).Draw(rt, "n")}, {K: harness.OpWriteMany, A: 0, B: 0},
		{K: harness.OpWrite, A: 0, C: 3}, {K: harness.OpWrite, A: 1, C: 4}, {K: harness.OpWrite, A: 2, C: 5}, {K: harness.OpSetRoot, A: 0},
	}, End: harness.EndCommit}})
	if full {
		p.Prefix = append(p.Prefix,
			harness.Item{Tx: &harness.Tx{Ops: []harness.Op{{K: harness.OpFill, A: 0}}, End: harness.EndCommit}},
			harness.Item{Tx: &harness.Tx{Overflow: true, Ops: []harness.Op{{K: harness.OpWriteMany, A: rapid.IntRange(0, 20).Draw(rt, "opick"), B: rapid.IntRange(1, 6).Draw(rt, "ocnt"), C: 77}}, End: harness.EndCommit}})
	}
	extra := rapid.SliceOfN(rapid.Custom(func(t *rapid.T) harness.Item { return harness.Item{Tx: harness.GenTx(t, params)} }), 0, 3).Draw(rt, "prefix")
	p.Prefix = append(p.Prefix, extra...)
	nr := rapid.IntRange(1, 4).Draw(rt, "rounds")
	if thorough {
		nr = rapid.IntRange(1, 8).Draw(rt, "rounds")
	}
	for i := 0; i < nr; i++ {
		var round harness.IsoRound
		round.Tx = *harness.GenTx(rt, params)
		// make overwrites of committed pages likely
		if rapid.IntRange(0, 2).Draw(rt, "ow") != 0 {
			round.Tx.Ops = append(round.Tx.Ops, harness.Op{K: harness.OpWriteMany, A: rapid.IntRange(0, 20).Draw(rt, "pick"), B: rapid.IntRange(1, 8).Draw(rt, "cnt"), C: rapid.IntRange(1, 1<<20).Draw(rt, "seed")})
		}
		round.Tx.Stall = false
		round.BeginAt = rapid.SliceOfN(rapid.IntRange(0, 12), 0, 4).Draw(rt, "beginAt")
		for s := 0; s < 5; s++ {
			round.Touch[s] = rapid.SliceOfN(rapid.IntRange(0, 3999), 0, 6).Draw(rt, "touch")
		}
		round.FlushBeforeEnd = rapid.IntRange(0, 1).Draw(rt, "flush") == 1
		round.GateKind = rapid.IntRange(0, 1).Draw(rt, "gateKind")
		if round.GateKind == 1 {
			round.GateSkip = rapid.IntRange(0, 1).Draw(rt, "gateSync")
		} else {
			round.GateSkip = rapid.IntRange(0, 10).Draw(rt, "gateWrite")
		}
		round.NewReaders = rapid.IntRange(0, 2).Draw(rt, "newReaders")
		p.Rounds = append(p.Rounds, round)
	}
	return p
}

func TestC02(t *testing.T) {
	th := thorough()
	rec := harness.NewRecorder("C02", "iso")
	completed := false
	defer func() { rec.Flush(completed) }()
	FilterKnown = true
	rapid.Check(t, func(rt *rapid.T) {
		p := genIso(rt, th)
		noteCase("C02", "iso", p.JSON())
		res := Guard(func() Result { return RunC02(p) })
		rec.Case(p.JSON(), harness.HashBytes(p.JSON()), res.Counters, res.Nontrivial, res.V)
		abortOnHang(rec, res.V)
		if res.V != nil {
			rt.Fatalf("C02 violated: %v", res.V)
		}
	})
	completed = true
}
