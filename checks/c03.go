package checks

import (
	"verif/harness"
)

func init() {
	Runners["C03"] = fileRunner(RunC03)
	harness.Specs["C03"] = &harness.PropSpec{
		ID: "C03", Test: "TestC03", Kind: "file", Level: "exploration",
		Quick: 24000, Thorough: 700000,
		Rule: "generated file programs (rapid; transactions of alloc/write(full,partial,load+edit)/read/free/flush/checkpoint/setroot ops, " +
			"commit|rollback|close, reopen, writer stalls) executed against a map model; a case is non-trivial if it overwrote a committed page and " +
			"contains at least one of: abort after Flush, checkpoint with a non-empty overwrite mapping, re-use of a freed page id, " +
			"a stalled writer batch with >=2 queued writes, a partial/load write on a freshly allocated page; distinct = distinct program hash",
		Assume: []string{
			"simulated disk implements coherent MAP_SHARED semantics",
			"page contents handed to SetBytes are not modified by the harness afterwards",
			"allocated-but-never-written pages are never read",
		},
	}
}

// C03Params are the generator parameters of C03.
func C03Params(thorough bool) harness.GenParams {
	p := harness.GenParams{SyncNone: true, HugeTx: true, MaxItems: 10, MaxOps: 10, Stall: true, Reopen: true, LimitOpen: true, MaxPages: 160}
	if thorough {
		p.MaxItems, p.MaxOps, p.MaxPages = 24, 14, 400
	}
	return p
}

// RunC03 executes a file program with the content oracle.
func RunC03(p *harness.Program) Result {
	o := harness.RunOpts{CheckContent: true, Drain: aux(p, 0)&1 == 1}
	r, v := harness.NewRunner(p, o)
	if v != nil {
		return Result{V: v}
	}
	v = r.Run()
	c := r.Counters
	nt := has(c, "overwrite") && has(c, "abort-after-flush", "checkpoint-nonempty", "reuse-freed", "stall-batch>=2",
		"partial-on-fresh", "partial-on-fresh-written")
	return Result{V: v, Counters: c, Nontrivial: nt}
}
