package checks

import (
	"testing"

	"pgregory.net/rapid"

	"verif/harness"
)

func TestC03(t *testing.T) {
	params := C03Params(thorough())
	checkFile(t, "C03", func(rt *rapid.T) *harness.Program {
		p := harness.GenProgram(rt, params)
		p.Aux = []uint64{uint64(rapid.IntRange(0, 1).Draw(rt, "drain"))}
		return p
	}, RunC03)
}
