package checks

import (
	"verif/harness"
)

func init() {
	Runners["C04"] = fileRunner(RunC04)
	harness.Specs["C04"] = &harness.PropSpec{
		ID: "C04", Test: "TestC04", Kind: "file", Level: "exploration",
		Quick: 24000, Thorough: 450000,
		Rule: "generated file programs (bounded/unbounded, InitMetaArea 0..16, overflow area on/off, rollbacks, reopens); every id returned by " +
			"Alloc/AllocN is checked against the model's committed and in-transaction live sets and the file's internal page sets (hook snapshot); after " +
			"every item the partition live/data-free/meta-free/meta-in-use must be pairwise disjoint and live contents are re-verified; non-trivial = " +
			"history with a commit that freed pages, an allocation served from a previously freed id, an overwrite of a committed page, and one of " +
			"{rollback/close, reopen, meta area growth}; distinct = distinct program hash",
		Assume: []string{
			"the hook snapshot (VerifState) faithfully copies the allocator, overwrite mapping and metadata page lists",
			"allocated-but-never-written pages are never read",
		},
	}
}

func C04Params(thorough bool) harness.GenParams {
	p := harness.GenParams{MaxItems: 12, MaxOps: 10, Reopen: true, LimitOpen: true, Overflow: true, MaxPages: 512, AbortHeavy: true}
	if thorough {
		p.MaxItems, p.MaxOps, p.MaxPages = 28, 14, 320
		p.BigAllocs = true
	}
	return p
}

// RunC04 executes a file program with the ownership oracles.
func RunC04(p *harness.Program) Result {
	o := harness.RunOpts{CheckContent: true, CheckOwnership: true, Drain: true}
	r, v := harness.NewRunner(p, o)
	if v != nil {
		return Result{V: v}
	}
	v = r.Run()
	c := r.Counters
	nt := has(c, "commit-with-frees") && has(c, "reuse-freed") && has(c, "overwrite") &&
		has(c, "rollback", "txclose", "reopen", "meta-grow")
	return Result{V: v, Counters: c, Nontrivial: nt}
}
