package checks

import (
	"testing"

	"pgregory.net/rapid"

	"verif/harness"
)

func TestC04(t *testing.T) {
	params := C04Params(thorough())
	checkFile(t, "C04", func(rt *rapid.T) *harness.Program {
		p := harness.GenProgram(rt, params)
		big := p.Cfg.MaxPages == 0 || p.Cfg.MaxPages >= 450
		if big && rapid.IntRange(0, 7).Draw(rt, "bigregion") == 0 {
			// a free region of 254/255/256/300 pages next to other free regions, a reopen,
			// then allocations that consume the free list: ids must never be live pages
			n := rapid.IntRange(320, 420).Draw(rt, "n")
			cnt := rapid.SampledFrom([]int{254, 255, 255, 256, 300}).Draw(rt, "cnt")
			start := rapid.IntRange(0, 12).Draw(rt, "start")
			pre := []harness.Item{
				{Tx: &harness.Tx{Ops: []harness.Op{{K: harness.OpAlloc, A: n}, {K: harness.OpWriteMany, A: 0, B: 0}, {K: harness.OpWriteMany, A: start + cnt, B: 30, C: 9}}, End: harness.EndCommit}},
				{Tx: &harness.Tx{Ops: []harness.Op{{K: harness.OpFreeMany, A: start, B: cnt, C: 1}, {K: harness.OpFreeMany, A: start + 10, B: 8, C: 1}}, End: harness.EndCommit}},
				{Reopen: &harness.Reopen{Mode: rapid.IntRange(0, 1).Draw(rt, "mode")}},
				{Tx: &harness.Tx{Ops: []harness.Op{{K: harness.OpAlloc, A: rapid.IntRange(200, 330).Draw(rt, "again")}, {K: harness.OpWriteMany, A: 0, B: 40, C: 11}}, End: harness.EndCommit}},
			}
			p.Items = append(pre, p.Items...)
		}
		return p
	}, RunC04)
}
