package checks

import (
	"testing"

	"pgregory.net/rapid"

	"verif/harness"
)

func TestC04(t *testing.T) {
	params := C04Params(thorough())
	checkFile(t, "C04", func(rt *rapid.T) *harness.Program {
		return harness.GenProgram(rt, params)
	}, RunC04)
}
