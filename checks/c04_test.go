package checks

import (
	"testing"

	"pgregory.net/rapid"

	"verif/harness"
)

func TestC04(t *testing.T) {
	params := C04Params(thorough())
	checkFile(t, "C04", func(rt *rapid.T) *harness.Program {
		p := harness.GenProgram(rt, params)
		big := p.Cfg.MaxPages == 0 || p.Cfg.MaxPages >= 450
		if big && rapid.IntRange(0, 7).Draw(rt, "bigregion") == 0 {
			// a free region of 254/255/256/300 pages next to other free regions, a reopen,
			// then allocations that consume the free list: ids must never be live pages
			n := rapid.IntRange(320, 420).Draw(rt, "n")
			cnt := rapid.SampledFrom([]int{254, 255, 255, 256, 300}).Draw(rt, "cnt")
			start := rapid.IntRange(0, 12).Draw(rt, "start")
			pre := []harness.Item{
				{Tx: &harness.Tx{Ops: []harness.Op{{K: harness.OpAlloc, A: n}, {K: harness.OpWriteMany, A: 0, B: 0}, {K: harness.OpWriteMany, A: start + cnt, B: 30, C: 9}}, End: harness.EndCommit}},
				{Tx: &harness.Tx{Ops: []harness.Op{{K: harness.OpFreeMany, A: start, B: cnt, C: 1}, {K: harness.OpFreeMany, A: start + 10, B: 8, C: 1}}, End: harness.EndCommit}},
				{Reopen: &harness.Reopen{Mode: rapid.IntRange(0, 1).Draw(rt, "mode")}},
				{Tx: &harness.Tx{Ops: []harness.Op{{K: harness.OpAlloc, A: rapid.IntRange(200, 330).Draw(rt, "again")}, {K: harness.OpWriteMany, A: 0, B: 40, C: 11}}, End: harness.EndCommit}},
			}
			p.Items = append(pre, p.Items...)
		}
		if p.Cfg.MaxPages > 0 && rapid.IntRange(0, 5).Draw(rt, "overflowInTx") == 0 {
			// one transaction that fills the data area, gets write-ahead pages from the overflow area in the
			// middle (explicit flush), frees its last new pages again and goes on overwriting and flushing:
			// the end markers move in both directions while overflow pages are in use
			var ops []harness.Op
			ops = append(ops, harness.Op{K: harness.OpFill, A: rapid.IntRange(0, 2).Draw(rt, "leave")},
				harness.Op{K: harness.OpWriteMany, A: rapid.IntRange(0, 30).Draw(rt, "p1"), B: rapid.IntRange(1, 3).Draw(rt, "c1"), C: 21},
				harness.Op{K: harness.OpFlushTx})
			for i, nfree := 0, rapid.IntRange(1, 3).Draw(rt, "nfree"); i < nfree; i++ {
				ops = append(ops, harness.Op{K: harness.OpFree, A: 0, B: 1})
			}
			ops = append(ops, harness.Op{K: harness.OpWriteMany, A: rapid.IntRange(0, 30).Draw(rt, "p2"), B: rapid.IntRange(2, 5).Draw(rt, "c2"), C: 22},
				harness.Op{K: harness.OpFlushTx},
				harness.Op{K: harness.OpAlloc, A: rapid.IntRange(1, 3).Draw(rt, "again2")},
				harness.Op{K: harness.OpWriteMany, A: rapid.IntRange(0, 30).Draw(rt, "p3"), B: 2, C: 23})
			at := rapid.IntRange(0, len(p.Items)).Draw(rt, "overflowAt")
			items := append([]harness.Item{}, p.Items[:at]...)
			items = append(items,
				harness.Item{Tx: &harness.Tx{Ops: []harness.Op{{K: harness.OpAlloc, A: rapid.IntRange(4, 12).Draw(rt, "pre")}, {K: harness.OpWrite, A: 0, C: 31}, {K: harness.OpWrite, A: 1, C: 32}, {K: harness.OpWrite, A: 2, C: 33}, {K: harness.OpWrite, A: 3, C: 34}}, End: harness.EndCommit}},
				harness.Item{Tx: &harness.Tx{Overflow: true, Ops: ops, End: rapid.SampledFrom([]string{harness.EndCommit, harness.EndCommit, harness.EndRollback}).Draw(rt, "oend")}})
			p.Items = append(items, p.Items[at:]...)
		}
		return p
	}, RunC04)
}
