package checks

import (
	"encoding/json"
	"fmt"

	"verif/harness"
)

func queueRunner(fn func(p *harness.QProgram) Result) RunFunc {
	return func(raw json.RawMessage) (Result, error) {
		var p harness.QProgram
		if err := json.Unmarshal(raw, &p); err != nil {
			return Result{}, fmt.Errorf("bad queue program: %v", err)
		}
		return Guard(func() Result { return fn(&p) }), nil
	}
}

func init() {
	Runners["C05"] = queueRunner(RunC05)
	Runners["C17"] = queueRunner(RunC17)
	harness.Specs["C05"] = &harness.PropSpec{
		ID: "C05", Test: "TestC05", Kind: "queue", Level: "exploration", FuzzTargets: []string{"FuzzC05"}, FuzzSeconds: 180,
		Quick: 16000, Thorough: 100000,
		Rule: "generated queue programs (Write chunks / Next / Flush, reader sections Begin..Next/Read(partial)..Done, ACK, queue and file reopen, drain probes " +
			"by a second queue object) on page sizes 1024/4096 and write buffers 0/1 page/8 pages/64 KiB, executed against a slice-of-events model; event sizes " +
			"are boundary biased (payload-4+-d, k*payload+-d, 1..3 bytes, > write buffer, multi page); Next must return the next event of the model with equal " +
			"size, Read bytes are compared incrementally, 'no event' is only accepted once everything flushed explicitly before Begin was delivered; non-trivial " +
			"= >=1 multi-chunk event, >=1 event spanning a page boundary, >=1 boundary-size event and >=1 partial read; distinct = distinct program hash",
		Assume: []string{
			"one writer and one reader object, used from one goroutine; no writer call or ACK while a reader transaction is open (self-deadlock by design)",
			"zero length events are not generated (Reader.Next uses 0 for 'no event')",
			"implicit flushes make the visible prefix an interval [explicitly flushed, completed]",
		},
	}
	harness.Specs["C17"] = &harness.PropSpec{
		ID: "C17", Test: "TestC17", Kind: "queue", Level: "exploration",
		Quick: 8000, Thorough: 50000,
		Rule: "generated queue programs as for C05 with counter probes at generated points (also inside reader sections and right after queue/file reopen): " +
			"ground truth D = number of events a second, fresh queue object can actually drain; Pending == Active == D, D within [explicitly flushed - ACKed, " +
			"completed - ACKed], Flushed callback total == ACKed + D, ACKed callback total == ACKed, Reader.Available == ACKed + D - consumed (probed when not " +
			"inside an event); half of the programs install a pq.Observer: OnQueueInit must report flushed - ACKed whenever a queue handle is opened, and the events " +
			"reported by OnQueueFlush / OnQueueACK for operations not marked Failed must add up to the Flushed / ACKed callback totals; non-trivial = program with >=3 probes including one on a partially ACKed queue or one empty-after-ACK and one Available probe; " +
			"distinct = distinct program hash",
		Assume: []string{
			"Available is only probed between events (a partially read event is neither consumed nor unread)",
			"callback totals are summed over all queue objects opened on the file",
		},
	}
}

func C05Params(thorough bool) harness.QGenParams {
	p := harness.QGenParams{MaxBlocks: 24, Reopen: true, Probes: true}
	if thorough {
		p.MaxBlocks = 60
	}
	return p
}

// RunC05 executes a queue program with the FIFO/content oracle.
func RunC05(p *harness.QProgram) Result {
	r, v := harness.NewQRunner(p, harness.QOpts{})
	if v != nil {
		return Result{V: v}
	}
	v = r.Run()
	c := r.Counters
	nt := has(c, "multi-chunk-event") && has(c, "event-spans-pages") && has(c, "event-boundary-size") && has(c, "partial-read")
	return Result{V: v, Counters: c, Nontrivial: nt}
}

// RunC17 executes a queue program with the counter oracles.
func RunC17(p *harness.QProgram) Result {
	r, v := harness.NewQRunner(p, harness.QOpts{CheckCounters: true})
	if v != nil {
		return Result{V: v}
	}
	v = r.Run()
	c := r.Counters
	nt := c["probe"] >= 3 && has(c, "probe-partially-acked", "probe-empty-after-ack") && has(c, "probe-available")
	return Result{V: v, Counters: c, Nontrivial: nt}
}
