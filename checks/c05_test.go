package checks

import (
	"testing"

	"pgregory.net/rapid"

	"verif/harness"
)

// checkQueue is the common driver for properties over generated queue programs.
func checkQueue(t *testing.T, prop string, gen func(rt *rapid.T) *harness.QProgram, run func(p *harness.QProgram) Result) {
	rec := harness.NewRecorder(prop, "queue")
	completed := false
	defer func() { rec.Flush(completed) }()
	checkQueueRec(t, rec, prop, gen, run)
	completed = true
}

func checkQueueRec(t *testing.T, rec *harness.Recorder, prop string, gen func(rt *rapid.T) *harness.QProgram, run func(p *harness.QProgram) Result) {
	FilterKnown = true
	rec.SetKind("queue")
	rapid.Check(t, func(rt *rapid.T) {
		p := gen(rt)
		noteCase(prop, "queue", p.JSON())
		res := guardOf(prop)(func() Result { return run(p) })
		if res.V != nil {
			if id := matchKnown(prop, res.V); id != "" {
				rec.Exclude("matched:" + id)
				rec.Case(p.JSON(), p.Hash(), res.Counters, false, nil)
				return
			}
		}
		rec.Case(p.JSON(), p.Hash(), res.Counters, res.Nontrivial, res.V)
		abortOnHang(rec, res.V)
		if res.V != nil {
			rt.Fatalf("%s violated: %v", prop, res.V)
		}
	})
}

func TestC05(t *testing.T) {
	params := C05Params(thorough())
	checkQueue(t, "C05", func(rt *rapid.T) *harness.QProgram { return harness.GenQProgram(rt, params) }, RunC05)
}

func TestC17(t *testing.T) {
	params := C05Params(thorough())
	params.Probes = true
	fill := C12Params(thorough())
	fill.MaxBlocks = 3
	checkQueue(t, "C17", func(rt *rapid.T) *harness.QProgram {
		if rapid.IntRange(0, 15).Draw(rt, "smallfile") == 0 {
			// small bounded file: flushes fail and are retried; counters and callback
			// totals must still be exact at every probe
			p := harness.GenQFillProgram(rt, fill)
			var steps []harness.QStep
			for _, s := range p.Steps {
				steps = append(steps, s)
				if s.K == harness.QAckAll || s.K == harness.QFlush || s.K == harness.QAck {
					steps = append(steps, harness.QStep{K: harness.QProbe})
				}
			}
			p.Steps = append(steps, harness.QStep{K: harness.QReopenF}, harness.QStep{K: harness.QProbe})
			return p
		}
		p := harness.GenQProgram(rt, params)
		// always end with a probe after a reopen
		p.Steps = append(p.Steps, harness.QStep{K: harness.QProbe}, harness.QStep{K: harness.QReopenF}, harness.QStep{K: harness.QProbe})
		return p
	}, RunC17)
}
