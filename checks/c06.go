package checks

import (
	"encoding/json"

	"verif/harness"
)

func init() {
	Runners["C06"] = func(raw json.RawMessage) (Result, error) {
		var p harness.QProgram
		if err := json.Unmarshal(raw, &p); err != nil {
			return Result{}, err
		}
		return GuardEnum(func() Result { return RunC06(&p, false) }), nil
	}
	harness.Specs["C06"] = &harness.PropSpec{
		ID: "C06", Test: "TestC06", Kind: "queue", Level: "fault_enumeration",
		Quick: 320, Thorough: 1600,
		Rule: "evaluations = generated producer/consumer histories (as C05, incl. queue/file reopen points which are checked by drain probes) recorded on the " +
			"simulated disk with markers around every writer call, ACK and queue close; for every op-log position after queue creation all crash images (subsets " +
			"of un-synced writes, torn header) are reopened through txfile open + NewStandaloneDelegate + pq.New and drained: the delivered sequence must be " +
			"exactly events [a,f) with a = ACKs that returned (or, all-or-nothing, the ACK in progress) and f = events reported flushed (or the flush in " +
			"progress, all-or-nothing); sampled images additionally append/flush/drain/ACK; distinct_nontrivial = histories with >=1 image inside a flush or ACK " +
			"transaction with a proper subset of writes kept or a torn header",
		Assume: []string{
			"the Flushed callback (documented to report committed events) marks which writer calls flushed implicitly; the flush itself is checked all-or-nothing",
			"same durability model as C01",
		},
	}
}

func C06Params(thorough bool) harness.QGenParams {
	p := harness.QGenParams{MaxBlocks: 12, Reopen: true, Probes: true}
	if thorough {
		p.MaxBlocks = 28
	}
	return p
}

// RunC06 records a queue history and checks all its crash images.
func RunC06(p *harness.QProgram, thorough bool) Result {
	r, v := harness.NewQRunner(p, harness.QOpts{MarkLog: true})
	if v != nil {
		return Result{V: v}
	}
	if v = r.Run(); v != nil {
		return Result{V: v, Counters: r.Counters}
	}
	var st harness.CrashStats
	cp := crashParams(thorough || aux(&harness.Program{Aux: p.Aux}, 2) == 1, aux(&harness.Program{Aux: p.Aux}, 1))
	v = harness.CheckQueueCrashImages(r, cp, &st)
	c := r.Counters
	c["images"] = st.Images
	c["images-in-flush-or-ack-window"] = st.InWindow
	c["images-torn"] = st.Torn
	c["images-nontrivial"] = st.Nontrivial
	c["images-suffix-run"] = st.Suffixes
	c["positions"] = st.Positions
	c["recovered-new-in-window"] = st.RecoveredTo["new"]
	c["recovered-old-in-window"] = st.RecoveredTo["old"]
	c["enumeration-capped"] = st.Capped
	return Result{V: v, Counters: c, Nontrivial: st.Nontrivial > 0}
}
