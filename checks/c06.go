package checks

import (
	"encoding/json"

	"verif/harness"
)

func init() {
	Runners["C06"] = func(raw json.RawMessage) (Result, error) {
		var p harness.QProgram
		if err := json.Unmarshal(raw, &p); err != nil {
			return Result{}, err
		}
		return GuardEnum(func() Result { return RunC06(&p, false) }), nil
	}
	harness.Specs["C06"] = &harness.PropSpec{
		ID: "C06", Test: "TestC06", Kind: "queue", Level: "fault_enumeration",
		Quick: 256, Thorough: 400,
		Rule: "two parts. (1) clean reopen points: generated producer/consumer histories in which queue and file are closed and reopened after flushes, reader " +
			"sections and ACKs (24 histories per generated case), each reopen followed by a drain probe: a fresh reader must deliver exactly the flushed un-ACKed " +
			"events; (2) crash points: generated producer/consumer histories recorded on the " +
			"simulated disk with markers around every writer call, ACK and queue close; for every op-log position after queue creation all crash images (subsets " +
			"of un-synced writes, torn header) are reopened through txfile open + NewStandaloneDelegate + pq.New and drained: the delivered sequence must be " +
			"exactly events [a,f) with a = ACKs that returned (or, all-or-nothing, the ACK in progress) and f = events reported flushed (or the flush in " +
			"progress, all-or-nothing); sampled images additionally append/flush/drain/ACK; distinct_nontrivial = histories with >=1 image inside a flush or ACK " +
			"transaction with a proper subset of writes kept or a torn header",
		Assume: []string{
			"one in six crash histories runs fill-until-error / drain / ACK cycles on a small bounded file (failed flushes, ACK transactions using and releasing the overflow area); their enumeration is capped at 2500 (thorough 8000) images",
			"the Flushed callback (documented to report committed events) marks which writer calls flushed implicitly; the flush itself is checked all-or-nothing",
			"same durability model as C01",
		},
	}
}

func C06Params(thorough bool) harness.QGenParams {
	p := harness.QGenParams{MaxBlocks: 12, Reopen: true, Probes: true}
	if thorough {
		p.MaxBlocks = 28
	}
	return p
}

// RunC06 records a queue history and checks all its crash images.
func RunC06(p *harness.QProgram, thorough bool) Result {
	r, v := harness.NewQRunner(p, harness.QOpts{MarkLog: true})
	if v != nil {
		return Result{V: v}
	}
	if v = r.Run(); v != nil {
		return Result{V: v, Counters: r.Counters}
	}
	var st harness.CrashStats
	cp := crashParams(thorough || aux(&harness.Program{Aux: p.Aux}, 2) == 1, aux(&harness.Program{Aux: p.Aux}, 1))
	if m := aux(&harness.Program{Aux: p.Aux}, 3); m > 0 {
		cp.MaxImages = int(m)
		cp.FromFirstFailure = true // skip the long fill phase (ordinary flushes, covered by the other histories)
	}
	v = harness.CheckQueueCrashImages(r, cp, &st)
	c := r.Counters
	c["images"] = st.Images
	c["images-in-flush-or-ack-window"] = st.InWindow
	c["images-torn"] = st.Torn
	c["images-nontrivial"] = st.Nontrivial
	c["images-suffix-run"] = st.Suffixes
	c["positions"] = st.Positions
	c["recovered-new-in-window"] = st.RecoveredTo["new"]
	c["recovered-old-in-window"] = st.RecoveredTo["old"]
	c["enumeration-capped"] = st.Capped
	return Result{V: v, Counters: c, Nontrivial: st.Nontrivial > 0}
}

// RunC06Reopen executes a history with clean close/reopen points; every
// reopen is followed by a drain probe (a fresh reader must deliver exactly the
// flushed, un-ACKed events in order).
func RunC06Reopen(p *harness.QProgram) Result {
	r, v := harness.NewQRunner(p, harness.QOpts{CheckCounters: true})
	if v != nil {
		return Result{V: v}
	}
	v = r.Run()
	c := r.Counters
	nt := has(c, "reopen-file", "reopen-queue") && has(c, "ack") && has(c, "probe-partially-acked", "probe-empty-after-ack")
	return Result{V: v, Counters: c, Nontrivial: nt}
}
