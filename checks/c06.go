package checks

import (
	"encoding/json"
	"fmt"

	"verif/harness"
	"verif/simdisk"
)

func init() {
	Runners["C06"] = func(raw json.RawMessage) (Result, error) {
		var p harness.QProgram
		if err := json.Unmarshal(raw, &p); err != nil {
			return Result{}, err
		}
		if len(p.Aux) > 0 && p.Aux[0] == 2 {
			return Guard(func() Result { return RunC06Faults(&p) }), nil
		}
		return GuardEnum(func() Result { return RunC06(&p, false) }), nil
	}
	harness.Specs["C06"] = &harness.PropSpec{
		ID: "C06", Test: "TestC06", Kind: "queue", Level: "fault_enumeration", FuzzTargets: []string{"FuzzC06Faults"}, FuzzSeconds: 180,
		Quick: 256, Thorough: 400,
		Rule: "three parts. (3) I/O failures: generated histories re-executed under 8 fault plans each (write calls failing before effect or after a short write, sync " +
			"calls failing, bursts of 1-3, hitting the flush and ACK transactions): the affected writer call / ACK returns an error (model rules of a full file), " +
			"readers keep delivering exactly the flushed events, and once the failures stop the buffered events are flushed, a drain probe (also after a clean reopen of " +
			"file and queue) delivers exactly the un-ACKed completed events, counters and callbacks agree, and everything can be consumed and ACKed. (1) clean reopen points: generated producer/consumer histories in which queue and file are closed and reopened after flushes, reader " +
			"sections and ACKs (24 histories per generated case), each reopen followed by a drain probe: a fresh reader must deliver exactly the flushed un-ACKed " +
			"events; (2) crash points: generated producer/consumer histories recorded on the " +
			"simulated disk with markers around every writer call, ACK and queue close; for every op-log position after queue creation all crash images (subsets " +
			"of un-synced writes, torn header) are reopened through txfile open + NewStandaloneDelegate + pq.New and drained: the delivered sequence must be " +
			"exactly events [a,f) with a = ACKs that returned (or, all-or-nothing, the ACK in progress) and f = events reported flushed (or the flush in " +
			"progress, all-or-nothing); sampled images additionally append/flush/drain/ACK; distinct_nontrivial = histories with >=1 image inside a flush or ACK " +
			"transaction with a proper subset of writes kept or a torn header",
		Assume: []string{
			"one in six crash histories runs fill-until-error / drain / ACK cycles on a small bounded file (failed flushes, ACK transactions using and releasing the overflow area); their enumeration is capped at 2500 (thorough 8000) images",
			"the Flushed callback (documented to report committed events) marks which writer calls flushed implicitly; the flush itself is checked all-or-nothing",
			"same durability model as C01",
		},
	}
}

func C06Params(thorough bool) harness.QGenParams {
	p := harness.QGenParams{MaxBlocks: 12, Reopen: true, Probes: true}
	if thorough {
		p.MaxBlocks = 28
	}
	return p
}

// RunC06 records a queue history and checks all its crash images.
func RunC06(p *harness.QProgram, thorough bool) Result {
	r, v := harness.NewQRunner(p, harness.QOpts{MarkLog: true})
	if v != nil {
		return Result{V: v}
	}
	if v = r.Run(); v != nil {
		return Result{V: v, Counters: r.Counters}
	}
	var st harness.CrashStats
	cp := crashParams(thorough || aux(&harness.Program{Aux: p.Aux}, 2) == 1, aux(&harness.Program{Aux: p.Aux}, 1))
	if m := aux(&harness.Program{Aux: p.Aux}, 3); m > 0 {
		cp.MaxImages = int(m)
		cp.FromFirstFailure = true // skip the long fill phase (ordinary flushes, covered by the other histories)
	}
	v = harness.CheckQueueCrashImages(r, cp, &st)
	c := r.Counters
	c["images"] = st.Images
	c["images-in-flush-or-ack-window"] = st.InWindow
	c["images-torn"] = st.Torn
	c["images-nontrivial"] = st.Nontrivial
	c["images-suffix-run"] = st.Suffixes
	c["positions"] = st.Positions
	c["recovered-new-in-window"] = st.RecoveredTo["new"]
	c["recovered-old-in-window"] = st.RecoveredTo["old"]
	c["enumeration-capped"] = st.Capped
	return Result{V: v, Counters: c, Nontrivial: st.Nontrivial > 0}
}

// RunC06Reopen executes a history with clean close/reopen points; every
// reopen is followed by a drain probe (a fresh reader must deliver exactly the
// flushed, un-ACKed events in order).
func RunC06Reopen(p *harness.QProgram) Result {
	r, v := harness.NewQRunner(p, harness.QOpts{CheckCounters: true})
	if v != nil {
		return Result{V: v}
	}
	v = r.Run()
	c := r.Counters
	nt := has(c, "reopen-file", "reopen-queue") && has(c, "ack") && has(c, "probe-partially-acked", "probe-empty-after-ack")
	return Result{V: v, Counters: c, Nontrivial: nt}
}

// RunC06Faults executes a queue history under injected I/O failures (write and sync calls of the
// flush and ACK transactions): the affected writer call / ACK returns an error, nothing is lost,
// duplicated or reordered, and once the failures stop the buffered events are flushed, the queue
// holds exactly the un-ACKed events - also after a clean reopen - and can be consumed completely.
func RunC06Faults(p *harness.QProgram) Result {
	ref, v := harness.NewQRunner(p, harness.QOpts{})
	if v != nil {
		return Result{V: v}
	}
	ref.Disk.Arm(nil)
	if v = ref.Run(); v != nil {
		return Result{V: v, Counters: ref.Counters}
	}
	counts := ref.Disk.Counts()
	c := ref.Counters
	var kinds []simdisk.CallKind
	for _, k := range []simdisk.CallKind{simdisk.CallWrite, simdisk.CallSync} {
		if counts[k] > 0 {
			kinds = append(kinds, k)
		}
	}
	if len(kinds) == 0 {
		return Result{Counters: c}
	}
	rnd := harness.NewRand(aux(&harness.Program{Aux: p.Aux}, 1))
	nplans := 8
	nontrivial := false
	for i := 0; i < nplans; i++ {
		k := kinds[rnd()%uint64(len(kinds))]
		f := simdisk.Fault{Kind: k, Ordinal: int(rnd() % uint64(counts[k])), Burst: 1 + int(rnd()%3), NoSpace: rnd()%2 == 0}
		if k == simdisk.CallWrite && rnd()%2 == 0 {
			f.Mode = simdisk.FailShort
		}
		if fs := p.Fault; fs != nil {
			f = simdisk.Fault{Kind: simdisk.CallKind(fs.Kind), Ordinal: fs.Ordinal, Burst: fs.Burst, Mode: simdisk.FaultMode(fs.Mode), NoSpace: fs.NoSpace}
		}
		r, v := harness.NewQRunner(p, harness.QOpts{Faults: true, CheckCounters: true})
		if v != nil {
			return Result{V: v, Counters: c}
		}
		r.Disk.Arm(&f)
		v = r.Run()
		c["queue-fault-runs"]++
		for _, n := range []string{"call-failed-by-fault", "ack-failed-by-fault", "fault-hit", "flush-after-failure"} {
			c["qf-"+n] += r.Counters[n]
		}
		if r.Counters["call-failed-by-fault"]+r.Counters["ack-failed-by-fault"] > 0 {
			nontrivial = true
		}
		if v != nil {
			v.Msg = fmt.Sprintf("fault plan {%s call #%d burst %d mode %d nospace=%v}: %s", f.Kind, f.Ordinal, f.Burst, f.Mode, f.NoSpace, v.Msg)
			p.Fault = &harness.FaultSpec{Kind: int(f.Kind), Ordinal: f.Ordinal, Burst: f.Burst, Mode: int(f.Mode), NoSpace: f.NoSpace}
			return Result{V: v, Counters: c}
		}
		if p.Fault != nil {
			break
		}
	}
	return Result{Counters: c, Nontrivial: nontrivial}
}
