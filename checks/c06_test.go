package checks

import (
	"testing"

	"pgregory.net/rapid"

	"verif/harness"
)

// genReopenProgram draws a producer/consumer history in which the queue (and
// file) is closed and reopened at many points, each followed by a drain probe.
func genReopenProgram(rt *rapid.T, params harness.QGenParams) *harness.QProgram {
	p := harness.GenQProgram(rt, params)
	var steps []harness.QStep
	for _, s := range p.Steps {
		steps = append(steps, s)
		if (s.K == harness.QAck || s.K == harness.QFlush || s.K == harness.QRDone) && rapid.IntRange(0, 2).Draw(rt, "reopenHere") == 0 {
			k := harness.QReopenQ
			if rapid.IntRange(0, 1).Draw(rt, "file") == 1 {
				k = harness.QReopenF
			}
			steps = append(steps, harness.QStep{K: k}, harness.QStep{K: harness.QProbe})
		}
	}
	p.Steps = append(steps, harness.QStep{K: harness.QReopenF}, harness.QStep{K: harness.QProbe}, harness.QStep{K: harness.QDrain}, harness.QStep{K: harness.QAckAll},
		harness.QStep{K: harness.QReopenQ}, harness.QStep{K: harness.QProbe})
	return p
}

func TestC06(t *testing.T) {
	th := thorough()
	params := C06Params(th)
	rec := harness.NewRecorder("C06", "queue")
	completed := false
	defer func() { rec.Flush(completed) }()

	// part 1: clean close/reopen points (cheap: 24 histories per generated case)
	FilterKnown = true
	rec.SetKind("queue")
	rp := params
	rp.Reopen = false
	rapid.Check(t, func(rt *rapid.T) {
		for i := 0; i < 24; i++ {
			p := genReopenProgram(rt, rp)
			noteCase("C06", "queue", p.JSON())
			res := Guard(func() Result { return RunC06Reopen(p) })
			rec.Case(p.JSON(), p.Hash(), res.Counters, res.Nontrivial, res.V)
			abortOnHang(rec, res.V)
			if res.V != nil {
				rt.Fatalf("C06 violated: %v", res.V)
			}
		}
	})

	// part 3: histories under injected I/O failures (2 histories x 8 fault plans per generated case)
	fp := params
	fp.MaxBlocks = 10
	rapid.Check(t, func(rt *rapid.T) {
		for i := 0; i < 2; i++ {
			var p *harness.QProgram
			if rapid.IntRange(0, 5).Draw(rt, "fillProgram") == 0 {
				p = harness.GenQFillProgram(rt, harness.QGenParams{MaxBlocks: 3, Bounded: true, MinPages: 16, MaxPages: 64, FillCycles: true})
			} else {
				p = harness.GenQProgram(rt, fp)
			}
			p.Aux = []uint64{2, rapid.Uint64().Draw(rt, "faultseed")}
			noteCase("C06", "queue", p.JSON())
			res := Guard(func() Result { return RunC06Faults(p) })
			rec.Case(p.JSON(), p.Hash(), res.Counters, res.Nontrivial, res.V)
			abortOnHang(rec, res.V)
			if res.V != nil {
				rt.Fatalf("C06 violated: %v", res.V)
			}
		}
	})

	// part 2: crash images
	// a quarter of the crash histories runs on a small bounded file with fill-until-error / drain / ACK
	// cycles: failed flushes, ACK transactions that need the overflow area and release it again
	full := harness.QGenParams{MaxBlocks: 2, Bounded: true, MinPages: 16, MaxPages: 64, FillCycles: true}
	if th {
		full.MaxBlocks = 4
	}
	checkQueueRec(t, rec, "C06", func(rt *rapid.T) *harness.QProgram {
		var p *harness.QProgram
		imgCap := uint64(0)
		if rapid.IntRange(0, 5).Draw(rt, "fullFile") == 0 {
			p = harness.GenQFillProgram(rt, full)
			imgCap = 2500 // these histories are I/O heavy (hundreds of events)
			if th {
				imgCap = 8000
			}
		} else {
			p = harness.GenQProgram(rt, params)
		}
		thr := uint64(0)
		if th {
			thr = 1
		}
		p.Aux = []uint64{0, rapid.Uint64().Draw(rt, "crashseed"), thr, imgCap}
		return p
	}, func(p *harness.QProgram) Result { return RunC06(p, th) })
	completed = true
}
