package checks

import (
	"testing"

	"pgregory.net/rapid"

	"verif/harness"
)

func TestC06(t *testing.T) {
	th := thorough()
	params := C06Params(th)
	checkQueue(t, "C06", func(rt *rapid.T) *harness.QProgram {
		p := harness.GenQProgram(rt, params)
		thr := uint64(0)
		if th {
			thr = 1
		}
		p.Aux = []uint64{0, rapid.Uint64().Draw(rt, "crashseed"), thr}
		return p
	}, func(p *harness.QProgram) Result { return RunC06(p, th) })
}
