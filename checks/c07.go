package checks

import (
	"fmt"
	"sort"
	"strings"

	txfile "github.com/elastic/go-txfile"

	"verif/harness"
)

func init() {
	Runners["C07"] = fileRunner(RunC07)
	harness.Specs["C07"] = &harness.PropSpec{
		ID: "C07", Test: "TestC07", Kind: "file", Level: "exploration",
		Quick: 12000, Thorough: 300000,
		Rule: "twin execution of generated programs H;T;K (run A) and H;K (run B, plus B' as determinism control), T ending in Rollback, " +
			"Close or a Commit that failed; compared: outcome/error kind of every step of K, every page id allocated in K, every byte read, capacity probes, " +
			"and the user-visible allocator snapshot (data free list, data end marker, metaTotal, #free meta pages, overwrite-mapping keys, #metadata pages) " +
			"right after T and after a final reopen; within run A the complete allocator state and the reported FileStats right after T equal those right before T, and on a " +
			"bounded file the file is not larger after T than before it or than the committed end markers require; non-trivial = T allocated past the old end marker and freed one of its own pages, or grew the meta area, " +
			"or flushed before aborting, or its commit failed; distinct = distinct program hash",
		Assume: []string{
			"identities of pages inside the meta area are not compared (flush order iterates Go maps, so they differ between identical runs)",
			"writer drained after every scheduling call, so both runs see the same disk call order",
		},
	}
}

func C07Params(thorough bool) harness.GenParams {
	p := harness.GenParams{MaxItems: 5, MaxOps: 10, Overflow: true, MaxPages: 128, Probe: true}
	if thorough {
		p.MaxItems, p.MaxOps, p.MaxPages = 10, 14, 256
	}
	return p
}

// userSnapshot renders the user-visible part of the allocator state.
func userSnapshot(s *txfile.VerifSnapshot) string {
	keys := make([]uint64, 0, len(s.WAL))
	for k := range s.WAL {
		keys = append(keys, uint64(k))
	}
	sort.Slice(keys, func(i, j int) bool { return keys[i] < keys[j] })
	var free []string
	for _, r := range s.DataFree {
		free = append(free, fmt.Sprintf("%d+%d", r.ID, r.Count))
	}
	// The number of free meta pages and of metadata pages is NOT included: the
	// page-count prediction for the free list depends on how fragmented the meta
	// free list is, which depends on page identities inside the meta area (map
	// iteration order in the implementation), so identical runs differ there.
	return fmt.Sprintf("root=%d dataEnd=%d dataFree=[%s] metaTotal=%d walKeys=%v maxPages=%d",
		s.Root, s.DataEnd, strings.Join(free, " "), s.MetaTotal, keys, s.MaxPages)
}

// confirmDiff decides whether a difference between twin runs is a stable fact
// about the implementation: both runs are repeated and the identical
// difference must show up every time. Identical programs can (rarely) diverge
// in meta-area internals because the implementation iterates Go maps; such a
// divergence does not survive repetition.
func confirmDiff(first string, again func() string, times int) bool {
	for i := 0; i < times; i++ {
		if again() != first {
			return false
		}
	}
	return true
}

// exactSnapshot renders the complete in-memory allocator state (used for
// before/after comparisons inside one run, where no map-order effect intervenes).
func exactSnapshot(s *txfile.VerifSnapshot) string {
	reg := func(rs []txfile.VerifRegion) string {
		var out []string
		for _, r := range rs {
			out = append(out, fmt.Sprintf("%d+%d", r.ID, r.Count))
		}
		return strings.Join(out, " ")
	}
	ids := func(in []txfile.PageID) string {
		c := append([]txfile.PageID(nil), in...)
		sort.Slice(c, func(i, j int) bool { return c[i] < c[j] })
		return fmt.Sprint(c)
	}
	var wal []string
	for k, v := range s.WAL {
		wal = append(wal, fmt.Sprintf("%d>%d", k, v))
	}
	sort.Strings(wal)
	return fmt.Sprintf("txid=%d root=%d maxPages=%d dataEnd=%d metaEnd=%d metaTotal=%d dataFree=[%s](%d) metaFree=[%s](%d) freelistPages=%s wal=%v walPages=%s",
		s.TxID, s.Root, s.MaxPages, s.DataEnd, s.MetaEnd, s.MetaTotal, reg(s.DataFree), s.DataAvail, reg(s.MetaFree), s.MetaAvail,
		ids(s.FreelistPages), wal, ids(s.WALPages))
}

// statsString renders the FileStats most recently reported to the Observer
// (a read transaction runs after every item, so they are current).
func statsString(r *harness.Runner) string {
	st := r.LastStats()
	return fmt.Sprintf(" stats{data=%d metaArea=%d metaAlloc=%d maxSize=%d}", st.DataAllocated, st.MetaArea, st.MetaAllocated, st.MaxSize)
}

type twinRun struct {
	exactBeforeT, exactAfterT string
	trace                     []harness.Obs
	snapAfter                 map[int]string // user snapshot after item i
	counters                  map[string]int
	tAborted                  bool
	v                         *harness.Violation
	// file size (bytes) right before and after T, file end (pages) and limit before T
	sizeBeforeT, sizeAfterT int64
	endBeforeT, maxPagesT   uint
}

func runTwin(p *harness.Program, skipT bool) twinRun {
	out := twinRun{snapAfter: map[int]string{}}
	o := harness.RunOpts{Record: true, Drain: true, CheckContent: true, NoFinalClose: true}
	r, v := harness.NewRunner(p, o)
	if v != nil {
		out.v = v
		return out
	}
	out.tAborted = true
	for i := range p.Items {
		it := &p.Items[i]
		if it.Tag == "T" && skipT {
			continue
		}
		before := r.Counters["commit"]
		if it.Tag == "T" {
			s := r.F.VerifState()
			out.exactBeforeT = exactSnapshot(&s) + statsString(r)
			out.sizeBeforeT = r.Disk.CurSize()
			out.endBeforeT, out.maxPagesT = uint(s.DataEnd), s.MaxPages
			if uint(s.MetaEnd) > out.endBeforeT {
				out.endBeforeT = uint(s.MetaEnd)
			}
		}
		if v := r.SafeRunItem(i, it); v != nil {
			out.v = v
			out.counters = r.Counters
			return out
		}
		if it.Tag == "T" && r.Counters["commit"] != before {
			out.tAborted = false // T committed: not an abort case
		}
		s := r.F.VerifState()
		out.snapAfter[i] = userSnapshot(&s)
		if it.Tag == "T" {
			out.exactAfterT = exactSnapshot(&s) + statsString(r)
			out.sizeAfterT = r.Disk.CurSize()
		}
	}
	out.v = r.Finish()
	out.trace = r.Trace
	out.counters = r.Counters
	return out
}

func fmtObs(o harness.Obs) string {
	return fmt.Sprintf("item %d op %d %s ok=%v err=%s ids=%v hash=%x n=%d", o.Item, o.Op, o.Kind, o.OK, o.Err, o.IDs, o.Hash, o.N)
}

// compareTwin returns a description of the first difference between the
// observations of the K part (items after tIdx) of two runs.
func compareTwin(a, b *twinRun, tIdx int, nItems int) string {
	filter := func(tr []harness.Obs) []harness.Obs {
		var out []harness.Obs
		for _, o := range tr {
			if o.Item > tIdx {
				out = append(out, o)
			}
		}
		return out
	}
	ta, tb := filter(a.trace), filter(b.trace)
	for i := 0; i < len(ta) && i < len(tb); i++ {
		if fmtObs(ta[i]) != fmtObs(tb[i]) {
			return fmt.Sprintf("observation differs: with T: {%s}; without T: {%s}", fmtObs(ta[i]), fmtObs(tb[i]))
		}
	}
	if len(ta) != len(tb) {
		return fmt.Sprintf("number of observations differs: %d vs %d", len(ta), len(tb))
	}
	// snapshots: right after T (A) versus right before K (B: after item tIdx-1) and after every later item
	prev := tIdx - 1
	if sa, ok := a.snapAfter[tIdx]; ok {
		sb, okb := b.snapAfter[prev]
		if okb && sa != sb {
			return fmt.Sprintf("allocator state after the aborted transaction differs from the state before it: {%s} vs {%s}", sa, sb)
		}
	}
	for i := tIdx + 1; i < nItems; i++ {
		sa, oka := a.snapAfter[i]
		sb, okb := b.snapAfter[i]
		if oka && okb && sa != sb {
			return fmt.Sprintf("allocator state after item %d differs: with T {%s}; without T {%s}", i, sa, sb)
		}
	}
	return ""
}

// RunC07 executes the twin comparison.
func RunC07(p *harness.Program) Result {
	tIdx := -1
	for i := range p.Items {
		if p.Items[i].Tag == "T" {
			tIdx = i
		}
	}
	if tIdx < 0 {
		return Result{Counters: map[string]int{"no-T": 1}}
	}
	a := runTwin(p, false)
	if a.v != nil {
		return Result{V: a.v, Counters: a.counters}
	}
	c := a.counters
	if !a.tAborted {
		c["T-committed"]++
		return Result{Counters: c}
	}
	// (1) same run: the in-memory state right after the aborted transaction
	// must equal the state right before it.
	if a.exactBeforeT != a.exactAfterT {
		return Result{V: &harness.Violation{Clause: "abort-residue", Item: tIdx,
			Msg: fmt.Sprintf("allocator state after the aborted transaction differs from the state before it: before {%s} after {%s}", a.exactBeforeT, a.exactAfterT)}, Counters: c}
	}
	// the file itself: on a bounded file the space an aborted transaction added to the file (flushed
	// pages beyond the old end, overflow area) is given back: the file is not larger than before the
	// transaction or than the committed end markers require (the writer is drained before T ends,
	// so no write of T can extend the file after the rollback)
	if a.maxPagesT > 0 {
		limit := int64(a.endBeforeT) * int64(p.Cfg.PageSize)
		if a.sizeBeforeT > limit {
			limit = a.sizeBeforeT
		}
		if a.sizeAfterT > limit {
			return Result{V: &harness.Violation{Clause: "abort-file-size", Item: tIdx,
				Msg: fmt.Sprintf("after the aborted transaction the file has %d bytes; before it had %d bytes and the committed end marker is at page %d (%d bytes): the transaction left its pages in the file",
					a.sizeAfterT, a.sizeBeforeT, a.endBeforeT, int64(a.endBeforeT)*int64(p.Cfg.PageSize))}, Counters: c}
		}
		c["abort-file-size-checked"]++
		if a.sizeAfterT < a.sizeBeforeT {
			c["abort-file-shrank"]++
		}
	}
	c["abort-compared"]++
	nt := has(c, "abort-alloc-past-end+free-own", "abort-after-flush", "abort-meta-grow", "commit-failed")

	// (2) twin runs. Once a transaction has enabled the overflow area, which
	// metadata pages are released depends on page identities inside the meta
	// area (Go map iteration order in the implementation), so end markers and
	// ids legitimately differ between identical runs: no cross-run comparison then.
	for i := range p.Items {
		if tx := p.Items[i].Tx; tx != nil && tx.Overflow {
			c["twin-skipped-overflow"]++
			return Result{Counters: c, Nontrivial: nt}
		}
	}
	b := runTwin(p, true)
	if b.v != nil {
		return Result{V: b.v, Counters: c}
	}
	if d := compareTwin(&a, &b, tIdx, len(p.Items)); d != "" {
		stable := confirmDiff(d, func() string {
			a2, b2 := runTwin(p, false), runTwin(p, true)
			if a2.v != nil || b2.v != nil {
				return "run failed"
			}
			return compareTwin(&a2, &b2, tIdx, len(p.Items))
		}, 8)
		if !stable {
			c["unstable-diff"]++
			return Result{Counters: c}
		}
		return Result{V: &harness.Violation{Clause: "twin-diff", Item: tIdx, Msg: d}, Counters: c}
	}
	c["twin-compared"]++
	return Result{Counters: c, Nontrivial: nt}
}
