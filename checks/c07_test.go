package checks

import (
	"testing"

	"pgregory.net/rapid"

	"verif/harness"
)

func genC07(rt *rapid.T, params harness.GenParams) *harness.Program {
	// the overflow area makes cross-run comparisons impossible (see RunC07): allow it in 1 of 4 programs
	params.Overflow = params.Overflow && rapid.IntRange(0, 3).Draw(rt, "allowOverflow") == 0
	hp := params
	hp.Probe = false
	prog := &harness.Program{Cfg: harness.GenConfig(rt, params)}
	h := rapid.SliceOfN(rapid.Custom(func(t *rapid.T) harness.Item { return harness.GenItem(t, hp) }), 0, params.MaxItems).Draw(rt, "H")
	// H transactions mostly commit
	prog.Items = append(prog.Items, h...)
	tp := params
	tp.MaxOps = params.MaxOps + 4
	tx := harness.GenTx(rt, tp)
	if rapid.IntRange(0, 5).Draw(rt, "freeAtEnd") == 0 {
		// the committed state has free pages right below the data end marker; T allocates across the
		// end marker (pages from the free list and new pages) and frees some of the new pages that are
		// not the last ones: rollback has to untangle free regions that straddle the old end marker
		nfree := rapid.IntRange(1, 3).Draw(rt, "nfree")
		var fr []harness.Op
		for i := 0; i < nfree; i++ {
			fr = append(fr, harness.Op{K: harness.OpFree, A: 0, B: 1})
		}
		prog.Items = append(prog.Items,
			harness.Item{Tx: &harness.Tx{Ops: []harness.Op{{K: harness.OpAlloc, A: rapid.IntRange(4, 9).Draw(rt, "pre")}, {K: harness.OpWrite, A: 0, C: 51}, {K: harness.OpWrite, A: 1, C: 52}}, End: harness.EndCommit}},
			harness.Item{Tx: &harness.Tx{Ops: fr, End: harness.EndCommit}})
		n := nfree + rapid.IntRange(2, 5).Draw(rt, "nnew")
		ops := []harness.Op{{K: harness.OpAlloc, A: n}}
		for i, k := 0, rapid.IntRange(1, 3).Draw(rt, "kfree"); i < k; i++ {
			// count from the end, but never the very last page: 1 .. n-nfree-1 are new pages
			ops = append(ops, harness.Op{K: harness.OpFree, A: rapid.IntRange(1, n-nfree-1).Draw(rt, "which"), B: 1})
		}
		tx.Ops = append(ops, tx.Ops...)
	}
	switch rapid.IntRange(0, 5).Draw(rt, "Tend") {
	case 0, 1, 2:
		tx.End = harness.EndRollback
	case 3:
		tx.End = harness.EndClose
	default:
		// a commit that is meant to fail for lack of space
		tx.End = harness.EndCommit
		if prog.Cfg.MaxPages > 0 {
			tx.Ops = append(tx.Ops, harness.Op{K: harness.OpFill, A: rapid.IntRange(0, 1).Draw(rt, "leave")},
				harness.Op{K: harness.OpWriteMany, A: 0, B: rapid.IntRange(1, 12).Draw(rt, "ow"), C: 77})
		} else {
			tx.End = harness.EndRollback
		}
	}
	prog.Items = append(prog.Items, harness.Item{Tx: tx, Tag: "T"})
	kp := params
	k := rapid.SliceOfN(rapid.Custom(func(t *rapid.T) harness.Item { return harness.GenItem(t, kp) }), 1, 4).Draw(rt, "K")
	prog.Items = append(prog.Items, k...)
	prog.Items = append(prog.Items, harness.Item{Probe: true}, harness.Item{Reopen: &harness.Reopen{Mode: 0}}, harness.Item{Probe: true})
	return prog
}

func TestC07(t *testing.T) {
	params := C07Params(thorough())
	checkFile(t, "C07", func(rt *rapid.T) *harness.Program { return genC07(rt, params) }, RunC07)
}
