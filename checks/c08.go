package checks

import (
	"os"
	"fmt"
	"runtime/debug"
	"time"

	txfile "github.com/elastic/go-txfile"

	"verif/harness"
	"verif/simdisk"
)

func init() {
	Runners["C08"] = fileRunnerEnum(func(p *harness.Program) Result { return RunC08(p, false) })
	harness.Specs["C08"] = &harness.PropSpec{
		ID: "C08", Test: "TestC08", Kind: "file", Level: "fault_enumeration",
		Quick: 2400, Thorough: 6000,
		Rule: "evaluations = generated histories; each is first run fault-free to count the I/O calls per kind (write, sync, truncate, size, mmap), then re-run " +
			"with one fault plan per run: (kind, ordinal of the first failing call of that kind, burst 1-4, mode: error before effect / short write / effect then " +
			"error, ENOSPC or EIO); quick: 10 drawn plans per history, thorough: the complete sweep over all positions for histories with <= 120 calls (else 40 drawn); " +
			"oracles: no panic/hang; a commit hit by a fault returns an error; after every item a read transaction sees exactly the last successful commit; lock idle; " +
			"transactions that begin after the last failing call commit; after disarming, clean reopen shows the last successful state or completely the state of a " +
			"commit whose only failures were syncs; then a further transaction commits; in addition every size/read/mmap call of Open on the final image is failed once (Open must return an error, " +
			"release lock and mapping, and the next clean Open must show the committed state), opens with a max-size update and a constructed shrinking open whose optional " +
			"release transaction runs are swept the same way (a tolerated failure is followed by contents/partition checks, an allocate-everything transaction, a commit, a reopen, " +
			"and an abandoned flushing transaction + reopen); for fault runs with a commit attempt that failed by syncs only the crash images from that attempt to the end of the " +
			"run are enumerated (coverage.classes_totals fault-crash-*): each must show completely the last successful commit, the commit in progress or such an unconfirmed " +
			"attempt; after every Commit that failed before the header was published the complete allocator state (free lists, end markers, meta area size, overwrite mapping, metadata pages) " +
			"equals the state when the transaction began, and the ownership partition holds after every item of a fault run; a constructed almost-full file whose overflow-area transaction needs several " +
			"new free-list pages at commit (last data pages AND overflow pages moved to the meta area by one request) has every write/sync of that commit failed once (overflow-grow-*); " +
			"a quarter of the histories runs on small bounded files with fill and overflow-area transactions; distinct_nontrivial = distinct histories with >= 1 run in which the fault " +
			"made a Commit fail and later transactions ran; fault run counts are in coverage.classes_totals",
		Assume: []string{
			"writer drained after every scheduling call so that the k-th call of a kind is a function of the program",
			"reopen items of the history are skipped while a fault plan is armed (a failing Open is covered by C18)",
			"on bounded files a post-fault commit failure is only a violation while >= 200 pages are still allocatable",
		},
	}
}

func C08Params(thorough bool) harness.GenParams {
	p := harness.GenParams{SyncNone: true, MaxItems: 7, MaxOps: 7, Reopen: false, MaxPages: 1024, MinPages: 512, NoFill: true, AbortHeavy: true, SmallPages: true}
	if thorough {
		p.MaxItems = 12
	}
	return p
}

type faultPlan struct {
	f simdisk.Fault
}

func (fp faultPlan) String() string {
	return fmt.Sprintf("%s call #%d burst %d mode %d nospace=%v", fp.f.Kind, fp.f.Ordinal, fp.f.Burst, fp.f.Mode, fp.f.NoSpace)
}

func modesFor(k simdisk.CallKind) []simdisk.FaultMode {
	switch k {
	case simdisk.CallWrite:
		// the property lists "error before effect" and "short write then error"
		return []simdisk.FaultMode{simdisk.FailBefore, simdisk.FailShort}
	}
	return []simdisk.FaultMode{simdisk.FailBefore}
}

var faultKinds = []simdisk.CallKind{simdisk.CallWrite, simdisk.CallSync, simdisk.CallTruncate, simdisk.CallSize, simdisk.CallMMap}

// RunC08 runs the reference execution and the fault runs of one history.
func RunC08(p *harness.Program, thorough bool) Result {
	thorough = thorough || aux(p, 2) == 1
	skipReopen := func(i int, it *harness.Item) bool { return it.Reopen != nil }

	// reference run
	ref, v := harness.NewRunner(p, harness.RunOpts{Drain: true, CheckContent: true, SkipItem: skipReopen})
	if v != nil {
		return Result{V: v}
	}
	ref.Disk.Arm(nil)
	if v = ref.Run(); v != nil {
		return Result{V: v, Counters: ref.Counters}
	}
	counts := ref.Disk.Counts()
	c := ref.Counters
	total := 0
	for _, k := range faultKinds {
		total += counts[k]
	}
	if total == 0 {
		return Result{Counters: c}
	}

	// fault plans
	var plans []faultPlan
	rnd := harness.NewRand(aux(p, 1))
	if fs := p.Fault; fs != nil {
		plans = []faultPlan{{simdisk.Fault{Kind: simdisk.CallKind(fs.Kind), Ordinal: fs.Ordinal, Burst: fs.Burst, Mode: simdisk.FaultMode(fs.Mode), NoSpace: fs.NoSpace}}}
	} else if thorough && total <= 120 {
		for _, k := range faultKinds {
			for ord := 0; ord < counts[k]; ord++ {
				for _, m := range modesFor(k) {
					plans = append(plans, faultPlan{simdisk.Fault{Kind: k, Ordinal: ord, Burst: 1 + int(rnd()%4), Mode: m, NoSpace: rnd()%2 == 0}})
					if ord%3 == 0 {
						// the storage never recovers during the history
						plans = append(plans, faultPlan{simdisk.Fault{Kind: k, Ordinal: ord, Burst: 1 << 30, Mode: m, NoSpace: rnd()%2 == 0}})
					}
				}
			}
		}
		c["full-sweep"] = 1
	} else {
		n := 10
		if thorough {
			n = 40
		}
		for i := 0; i < n; i++ {
			// pick a kind (spread over the kinds that occur), then a position
			var ks []simdisk.CallKind
			for _, k := range faultKinds {
				if counts[k] > 0 {
					ks = append(ks, k)
				}
			}
			k := ks[rnd()%uint64(len(ks))]
			ms := modesFor(k)
			burst := 1 + int(rnd()%4)
			if rnd()%6 == 0 {
				burst = 1 << 30 // the storage never recovers during the history
			}
			plans = append(plans, faultPlan{simdisk.Fault{Kind: k, Ordinal: int(rnd() % uint64(counts[k])), Burst: burst,
				Mode: ms[rnd()%uint64(len(ms))], NoSpace: rnd()%2 == 0}})
		}
	}

	// I/O failures while opening the existing file: every size/read/mmap call of a
	// clean Open is failed once; Open must return an error (no panic), release the
	// file lock, and a following clean Open must show the committed state.
	if thorough || aux(p, 1)%4 == 0 {
		if v := openFaultPhase(ref, c); v != nil {
			return Result{V: v, Counters: c}
		}
		if v := shrinkReleaseFaults(p.Cfg, aux(p, 1), c); v != nil {
			return Result{V: v, Counters: c}
		}
		if v := overflowGrowFaults(aux(p, 1), c); v != nil {
			return Result{V: v, Counters: c}
		}
		// (own watchdog: C08 cases run under the long enumeration guard, and a writer that stops
		// releasing its write syncs makes Commit, Close or the drain hook wait for ever)
		mc := map[string]int{}
		mdone := make(chan *harness.Violation, 1)
		go func() { mdone <- mixedBatchFaults(p.Cfg.PageSize, aux(p, 1), mc) }()
		select {
		case v := <-mdone:
			for k, n := range mc {
				c[k] += n
			}
			if v != nil {
				return Result{V: v, Counters: c}
			}
		case <-time.After(2 * HangTimeout):
			return Result{V: &harness.Violation{Clause: "hang", Item: -1, Msg: "mixed writer batch under a write failure: an operation (Commit, drain, Close or reopen) does not return"}, Counters: c}
		}
	}

	nontrivial := false
	for _, fp := range plans {
		fr, v := runWithFault(p, fp, skipReopen, true)
		c["fault-runs"]++
		c["fault-runs-"+fp.f.Kind.String()]++
		if fr != nil {
			if fr.Counters["commit-failed-by-fault"] > 0 {
				c["fault-in-commit"]++
				if fr.Counters["tx-after-fault"] > 0 {
					nontrivial = true
					c["fault-in-commit+later-tx"]++
				}
			}
			if fr.Counters["fault-hit"] == 0 {
				c["fault-not-hit"]++
			}
			c["recovered-maybe-state"] += fr.Counters["recovered-maybe-state"]
			for _, k := range []string{"fault-crash-images", "fault-crash-images-with-unconfirmed-commit", "fault-crash-recovered-unconfirmed-commit", "begin-failed-by-fault", "close-under-faults"} {
				c[k] += fr.Counters[k]
			}
			c["commit-failed-sync-only"] += fr.Counters["commit-failed-sync-only"]
		}
		if v != nil {
			v.Msg = "fault plan {" + fp.String() + "}: " + v.Msg
			if id := matchKnown("C08", v); id != "" {
				// open known finding: count it and keep searching behind it
				c["known:"+id]++
				continue
			}
			// make the case self-contained: the replay runs exactly this plan
			p.Fault = &harness.FaultSpec{Kind: int(fp.f.Kind), Ordinal: fp.f.Ordinal, Burst: fp.f.Burst, Mode: int(fp.f.Mode), NoSpace: fp.f.NoSpace}
			return Result{V: v, Counters: c}
		}
	}
	return Result{Counters: c, Nontrivial: nontrivial}
}

func runWithFault(p *harness.Program, fp faultPlan, skip func(int, *harness.Item) bool, crashImages bool) (*harness.Runner, *harness.Violation) {
	o := harness.RunOpts{Drain: true, CheckContent: true, CheckOwnership: true, CheckLockIdle: true, Faults: true, NoFinalClose: true, SkipItem: skip, TrackCommits: true}
	r, v := harness.NewRunner(p, o)
	if v != nil {
		return nil, v
	}
	f := fp.f
	r.Disk.Arm(&f)
	for i := range p.Items {
		it := &p.Items[i]
		if skip(i, it) {
			continue
		}
		over := r.Disk.FaultOver()
		if v := r.SafeRunItem(i, it); v != nil {
			return r, postPub(r, v)
		}
		if over && it.Tx != nil {
			r.Counters["tx-after-fault"]++
		}
	}
	if r.Disk.Injected() > 0 {
		r.Counters["fault-hit"]++
	}
	if !r.Disk.FaultOver() && r.F != nil {
		// The storage is still failing at the end of the history (long burst / persistent failure):
		// the file is closed in that situation. Whatever Close returns, it must not panic or hang
		// (watchdog) and it must release lock and mapping; the file is reopened after the "repair".
		f := r.F
		r.F = nil
		var pv *harness.Violation
		func() {
			defer func() {
				if x := recover(); x != nil {
					pv = &harness.Violation{Clause: "panic", Item: -1, Msg: fmt.Sprintf("File.Close paniced while the storage was failing: %v [%s]", x, harness.TrimStack(debug.Stack()))}
				}
			}()
			f.Close()
		}()
		r.Counters["close-under-faults"]++
		if pv == nil && (r.Disk.Locked() || r.Disk.LiveViews() != 0) {
			pv = &harness.Violation{Clause: "close-under-faults-lock", Item: -1, Msg: fmt.Sprintf("File.Close while the storage was still failing left the file locked=%v / %d mappings", r.Disk.Locked(), r.Disk.LiveViews())}
		}
		if pv != nil {
			return r, postPub(r, pv)
		}
	}
	// failures stop for good
	r.Disk.Arm(nil)
	// a crash at any point from the first commit attempt that failed by syncs only: its header may
	// be durable; whatever the process did afterwards must not damage that state (or the last good one)
	for i := range r.Commits {
		if c := &r.Commits[i]; crashImages && !c.OK && c.MaybeState != nil && !r.PostPub {
			var st harness.CrashStats
			st.RecoveredTo = map[string]int{}
			cp := harness.CrashParams{MaxFull: 3, Random: 1, TornCuts: []int{40}, MaxImages: 400, Seed: uint64(fp.f.Ordinal)}
			v := harness.CheckFaultCrashImages(r, cp, &st, c.BeginIdx)
			r.Counters["fault-crash-images"] += st.Images
			r.Counters["fault-crash-images-with-unconfirmed-commit"] += st.InWindow
			r.Counters["fault-crash-recovered-unconfirmed-commit"] += st.RecoveredTo["other"]
			if v != nil {
				r.Finish()
				return r, v
			}
			break
		}
	}
	return r, postPub(r, finishAfterFaults(r))
}

// postPub attributes every violation of a run in which a size/truncate/mmap
// failure hit the post-publication phase of a Commit to that history pattern.
func postPub(r *harness.Runner, v *harness.Violation) *harness.Violation {
	if v != nil && r.PostPub {
		v.Msg = "[" + v.Clause + "] " + v.Msg
		v.Clause = "commit-post-publication-io-failure"
	}
	return v
}

// finishAfterFaults: clean close/reopen must show the last successful state
// (or a sync-only-failed commit completely); then the file is fully usable.
func finishAfterFaults(r *harness.Runner) (v *harness.Violation) {
	defer func() {
		if x := recover(); x != nil {
			v = &harness.Violation{Clause: "panic", Item: -1, Msg: fmt.Sprintf("panic after faults stopped: %v [%s]", x, harness.TrimStack(debug.Stack()))}
		}
	}()
	if v := r.Finish(); v != nil {
		return v
	}
	// Which header will win? (independent parse) If it is not the header of the
	// last successful commit, a failed commit attempt left its header behind.
	img := r.Disk.Image()
	ps := int(r.P.Cfg.PageSize)
	exposed := false
	if len(img) >= ps+txfile.VerifHeaderSize {
		h0, h1 := harness.ParseHeader(img), harness.ParseHeader(img[ps:])
		win := uint64(0)
		switch {
		case h0.Valid && h1.Valid:
			win = h0.TxID
			if int64(h1.TxID-h0.TxID) > 0 {
				win = h1.TxID
			}
		case h0.Valid:
			win = h0.TxID
		case h1.Valid:
			win = h1.TxID
		}
		exposed = win != r.LastTxID
	}
	clause := func(c string) string {
		if exposed {
			// history pattern of known finding F16: the header written by a commit
			// attempt that failed is the newest valid header at reopen time
			return "failed-commit-header-exposed"
		}
		return c
	}
	defer func() {
		if x := recover(); x != nil {
			v = &harness.Violation{Clause: clause("panic"), Item: -1,
				Msg: fmt.Sprintf("panic while reopening after the failures stopped: %v [%s]", x, harness.TrimStack(debug.Stack()))}
		}
	}()
	f, err := txfile.VerifOpen(r.Disk, txfile.Options{})
	if err != nil {
		return &harness.Violation{Clause: clause("reopen-after-faults"), Item: -1, Msg: fmt.Sprintf("clean reopen after the failures stopped failed: %v", err)}
	}
	// the winning header identifies the state: the last successful commit, or
	// (exposed) one of the commit attempts whose only failures were syncs
	candidates := []*harness.MState{r.C}
	if exposed {
		candidates = r.Maybe
		if len(candidates) == 0 {
			f.Close()
			return &harness.Violation{Clause: clause(""), Item: -1, Msg: "after reopening, the newest valid header belongs to a commit attempt that failed for another reason than a sync"}
		}
	}
	var first *harness.Violation
	var got *harness.MState
	for i, m := range candidates {
		vv := harness.VerifyAgainst(f, m, -1)
		if vv == nil {
			got = m
			_ = i
			if exposed {
				r.Counters["recovered-maybe-state"]++
			}
			break
		}
		if first == nil {
			first = vv
		}
	}
	if got == nil {
		f.Close()
		first.Clause = clause("reopen-state-after-faults")
		first.Msg = fmt.Sprintf("after reopening, the file shows neither the last successfully committed state nor completely the state of a commit whose only failure was a sync (%d candidates): %s", len(candidates), first.Msg)
		return first
	}
	// continue on the reopened file: a further transaction must commit
	suffix := &harness.Program{Cfg: r.P.Cfg, Items: []harness.Item{
		{Tx: &harness.Tx{Ops: []harness.Op{{K: harness.OpAlloc, A: 2}, {K: harness.OpWrite, A: 1 << 20, C: 970001}, {K: harness.OpWriteMany, A: 1, B: 2, C: 970002}}, End: harness.EndCommit}},
	}}
	snap := f.VerifState()
	roomy := snap.MaxPages == 0
	if !roomy {
		avail := int(snap.DataAvail)
		if uint(snap.DataEnd) < snap.MaxPages {
			avail += int(snap.MaxPages) - int(snap.DataEnd)
		}
		roomy = avail >= 40 // small files that ran full: the continuation may fail for lack of space
	}
	sr := harness.NewRunnerOn(suffix, harness.RunOpts{CheckContent: true, Drain: true, Faults: true}, r.Disk, f, got)
	if v := sr.Run(); v != nil {
		v.Clause = clause("after-faults-" + v.Clause)
		return v
	}
	if sr.Counters["commit"] == 0 && roomy {
		return &harness.Violation{Clause: clause("after-faults-commit"), Item: -1, Msg: "transaction after the failures stopped (and a clean reopen) did not commit"}
	}
	return nil
}

// openFaultPhase fails each I/O call of Open on the final image of the reference run.
func openFaultPhase(ref *harness.Runner, c map[string]int) (v *harness.Violation) {
	img := ref.Disk.Image()
	model := ref.C
	defer func() {
		if x := recover(); x != nil {
			v = &harness.Violation{Clause: "open-fault-panic", Item: -1, Msg: fmt.Sprintf("Open paniced under an injected I/O failure: %v [%s]", x, harness.TrimStack(debug.Stack()))}
		}
	}()
	// count the calls of a clean open
	d0 := simdisk.FromImage("open0", img)
	d0.SetRecord(false)
	d0.Arm(nil)
	f0, err := txfile.VerifOpen(d0, txfile.Options{})
	if err != nil {
		return &harness.Violation{Clause: "reopen", Item: -1, Msg: fmt.Sprintf("clean open of the final image failed: %v", err)}
	}
	counts := d0.Counts()
	f0.Close()
	for _, k := range []simdisk.CallKind{simdisk.CallSize, simdisk.CallRead, simdisk.CallMMap} {
		for ord := 0; ord < counts[k]; ord++ {
			d := simdisk.FromImage("openfault", img)
			d.SetRecord(false)
			d.Arm(&simdisk.Fault{Kind: k, Ordinal: ord, Burst: 1})
			f, err := txfile.VerifOpen(d, txfile.Options{})
			c["open-fault-runs"]++
			if err == nil {
				// the failing call was not reached (or its failure is harmless): the file must work
				vv := harness.VerifyAgainst(f, model, -1)
				f.Close()
				if vv != nil {
					vv.Msg = fmt.Sprintf("Open with failing %s call #%d succeeded but: %s", k, ord, vv.Msg)
					return vv
				}
				continue
			}
			if d.Locked() {
				return &harness.Violation{Clause: "open-fault-lock", Item: -1, Msg: fmt.Sprintf("Open failed (%s call #%d failing) but left the file locked", k, ord)}
			}
			if d.LiveViews() != 0 {
				return &harness.Violation{Clause: "open-fault-mmap", Item: -1, Msg: fmt.Sprintf("Open failed (%s call #%d failing) but left the file mapped", k, ord)}
			}
			d.Arm(nil)
			f, err = txfile.VerifOpen(d, txfile.Options{})
			if err != nil {
				return &harness.Violation{Clause: "reopen-after-faults", Item: -1, Msg: fmt.Sprintf("after a failed Open (%s call #%d failing) the next clean Open failed: %v", k, ord, err)}
			}
			vv := harness.VerifyAgainst(f, model, -1)
			f.Close()
			if vv != nil {
				vv.Msg = fmt.Sprintf("after a failed Open (%s call #%d failing): %s", k, ord, vv.Msg)
				return vv
			}
		}
	}
	// Open with a max-size update (internal write transactions, optional preallocation)
	pageSize := uint64(ref.P.Cfg.PageSize)
	snap := uint64(0)
	{
		dq := simdisk.FromImage("probe", img)
		dq.SetRecord(false)
		fq, err := txfile.VerifOpen(dq, txfile.Options{})
		if err != nil {
			return nil
		}
		snap = uint64(fq.VerifState().MaxPages)
		fq.Close()
	}
	base := snap
	if base == 0 {
		base = uint64(len(img))/pageSize + 64
	}
	for vi, ropts := range []txfile.Options{
		{Flags: txfile.FlagUpdMaxSize, MaxSize: (base + 37) * pageSize, Prealloc: true},
		{Flags: txfile.FlagUpdMaxSize, MaxSize: (base + 11) * pageSize},
		{Flags: txfile.FlagUpdMaxSize, MaxSize: (64*1024/pageSize + 3) * pageSize},
	} {
		dc := simdisk.FromImage("resize0", img)
		dc.SetRecord(false)
		dc.Arm(nil)
		fc, err := txfile.VerifOpen(dc, ropts)
		if err != nil {
			continue
		}
		rcounts := dc.Counts()
		fc.Close()
		for _, k := range []simdisk.CallKind{simdisk.CallWrite, simdisk.CallSync, simdisk.CallTruncate, simdisk.CallSize, simdisk.CallMMap} {
			for ord := 0; ord < rcounts[k]; ord++ {
				d := simdisk.FromImage("resizefault", img)
				d.SetRecord(false)
				d.Arm(&simdisk.Fault{Kind: k, Ordinal: ord, Burst: 1, NoSpace: k == simdisk.CallTruncate})
				f, err := txfile.VerifOpen(d, ropts)
				c["open-fault-runs"]++
				c["resize-open-fault-runs"]++
				if err == nil {
					if d.Injected() > 0 {
						c["resize-open-fault-tolerated"]++
					}
					vv := harness.VerifyAgainst(f, model, -1)
					if vv == nil {
						// the returned File must accept a write transaction
						var tx *txfile.Tx
						tx, err = f.Begin()
						if err == nil {
							err = tx.Commit()
						}
						if err != nil {
							vv = &harness.Violation{Clause: "open-fault-usable", Item: -1, Msg: fmt.Sprintf("write transaction failed: %v", err)}
						}
					}
					f.Close()
					if vv == nil && d.Injected() > 0 {
						// The failure was tolerated (e.g. the optional transaction that releases regions beyond
						// a reduced limit). Whatever that attempt left in the file must not become visible later:
						// a transaction flushes pages and is abandoned, then the file is reopened.
						d2 := simdisk.FromImage("resizefault2", img)
						d2.SetRecord(false)
						d2.Arm(&simdisk.Fault{Kind: k, Ordinal: ord, Burst: 1, NoSpace: k == simdisk.CallTruncate})
						vv = abandonedTxAfterTolerantOpen(d2, ropts, model, int(pageSize))
						c["resize-open-fault-abandoned-tx"]++
					}
					if vv != nil {
						vv.Msg = fmt.Sprintf("Open with max-size update #%d and failing %s call #%d returned success, but: %s", vi, k, ord, vv.Msg)
						return vv
					}
					continue
				}
				if d.Locked() {
					return &harness.Violation{Clause: "open-fault-lock", Item: -1, Msg: fmt.Sprintf("Open with max-size update failed (%s call #%d failing) but left the file locked", k, ord)}
				}
				d.Arm(nil)
				f, err = txfile.VerifOpen(d, txfile.Options{})
				if err != nil {
					return &harness.Violation{Clause: "reopen-after-faults", Item: -1, Msg: fmt.Sprintf("after a failed Open with max-size update #%d (%s call #%d failing) the next clean Open failed: %v", vi, k, ord, err)}
				}
				vv := harness.VerifyAgainst(f, model, -1)
				f.Close()
				if vv != nil {
					vv.Msg = fmt.Sprintf("after a failed Open with max-size update #%d (%s call #%d failing): %s", vi, k, ord, vv.Msg)
					return vv
				}
			}
		}
	}
	return nil
}

// abandonedTxAfterTolerantOpen: Open (with a max-size update and one tolerated I/O failure), then a
// write transaction that allocates, writes and flushes pages and overwrites committed pages, but is
// closed without Commit; after closing and reopening the file the committed state must be intact.
func abandonedTxAfterTolerantOpen(d *simdisk.Disk, ropts txfile.Options, model *harness.MState, ps int) (v *harness.Violation) {
	defer func() {
		if x := recover(); x != nil {
			v = &harness.Violation{Clause: "open-fault-panic", Item: -1, Msg: fmt.Sprintf("panic in a transaction / reopen after a tolerated failure during Open: %v [%s]", x, harness.TrimStack(debug.Stack()))}
		}
	}()
	f, err := txfile.VerifOpen(d, ropts)
	if err != nil {
		return nil // not the tolerated path (call numbering differs): nothing to check
	}
	d.Arm(nil)
	tx, err := f.BeginWith(txfile.TxOptions{EnableOverflowArea: true})
	if err != nil {
		f.Close()
		return &harness.Violation{Clause: "open-fault-usable", Item: -1, Msg: fmt.Sprintf("Begin failed: %v", err)}
	}
	if pages, err := tx.AllocN(6); err == nil {
		for _, pg := range pages {
			pg.SetBytes(harness.Content(960000+int(pg.ID()), ps))
		}
	}
	n := 0
	for _, mp := range model.Pages {
		if mp.Data == nil || n >= 40 {
			continue // (enough overwrites to use every free page of the meta area for write-ahead pages)
		}
		if pg, err := tx.Page(mp.ID); err == nil {
			pg.SetBytes(harness.Content(970000+n, ps))
			n++
		}
	}
	tx.Flush()
	f.VerifDrainWriter()
	tx.Close()
	f.Close()
	f, err = txfile.VerifOpen(d, txfile.Options{})
	if err != nil {
		return &harness.Violation{Clause: "reopen-after-faults", Item: -1, Msg: fmt.Sprintf("a transaction was abandoned after the Open; the next clean Open failed: %v", err)}
	}
	vv := harness.VerifyAgainst(f, model, -1)
	if vv == nil {
		snap := f.VerifState()
		vv = harness.CheckPartition(&snap, model, -1, false)
	}
	if vv == nil {
		var tx *txfile.Tx
		if tx, err = f.Begin(); err == nil {
			if pg, e := tx.Alloc(); e == nil {
				pg.SetBytes(harness.Content(980000, ps))
			}
			err = tx.Commit()
		}
		if err != nil && !harness.IsOOM(err) {
			vv = &harness.Violation{Clause: "open-fault-usable", Item: -1, Msg: fmt.Sprintf("write transaction after the reopen failed: %v", err)}
		}
		if vv == nil {
			vv = harness.VerifyAgainst(f, model, -1)
		}
	}
	f.Close()
	if vv != nil {
		vv.Msg = "a transaction that flushed pages was abandoned after the Open, then the file was reopened: " + vv.Msg
	}
	return vv
}

// shrinkReleaseFaults: a shrinking open that runs the optional second open-time transaction (free
// regions at the end of the file reach beyond the new limit and are released), with every I/O call
// of that Open failing once (bursts 1-2). The release transaction is allowed to fail: Open then
// succeeds, and the returned File must behave exactly like the committed state says: contents,
// allocator partition, allocations (a full allocate-everything transaction with ownership checks),
// an abandoned flushing transaction followed by a reopen. If Open fails, the lock is released and
// a clean reopen shows the committed state.
func shrinkReleaseFaults(cfg harness.Config, seed uint64, c map[string]int) (v *harness.Violation) {
	defer func() {
		if x := recover(); x != nil {
			v = &harness.Violation{Clause: "open-fault-panic", Item: -1, Msg: fmt.Sprintf("shrinking open under an injected I/O failure: panic: %v [%s]", x, harness.TrimStack(debug.Stack()))}
		}
	}()
	rnd := harness.NewRand(seed ^ 0x5eed)
	ps := uint64(cfg.PageSize)
	minPages := 65536 / ps
	total := minPages + 40 + rnd()%80
	used := int(total) - 10 - int(rnd()%20) // pages allocated by the first transaction
	tail := 12 + int(rnd()%24)              // pages freed at the end by the second
	if tail > used-8 {
		tail = used - 8
	}
	newMax := uint64(used-tail) + 2 + 1 + rnd()%uint64(tail-2) // inside the freed tail region (+2 header pages)
	if newMax < minPages {
		newMax = minPages
	}
	// first transaction: allocate the pages and write each of them (new pages need no write-ahead page)
	first := []harness.Op{{K: harness.OpAlloc, A: used}}
	for i := 0; i < used; i++ {
		first = append(first, harness.Op{K: harness.OpWrite, A: i, B: 0, C: 7000 + i})
	}
	prog := &harness.Program{Cfg: harness.Config{PageSize: cfg.PageSize, MaxPages: uint(total), InitMeta: 16, Prealloc: rnd()%3 == 0}, Items: []harness.Item{
		{Tx: &harness.Tx{Ops: first, End: harness.EndCommit}},
		{Tx: &harness.Tx{Ops: []harness.Op{{K: harness.OpFreeMany, A: used - tail, B: tail, C: 1}, {K: harness.OpWriteMany, A: int(rnd() % 16), B: int(rnd() % 5), C: 9}}, End: harness.EndCommit}},
	}}
	r, v := harness.NewRunner(prog, harness.RunOpts{Drain: true, CheckContent: true})
	if v != nil {
		return v
	}
	if v = r.Run(); v != nil {
		return v
	}
	img, model := r.Disk.Image(), r.C
	ropts := txfile.Options{Flags: txfile.FlagUpdMaxSize, MaxSize: newMax * ps, Prealloc: rnd()%3 == 0}

	d0 := simdisk.FromImage("shrink0", img)
	d0.SetRecord(false)
	d0.Arm(nil)
	f0, err := txfile.VerifOpen(d0, ropts)
	if err != nil {
		return &harness.Violation{Clause: "reopen", Item: -1, Msg: fmt.Sprintf("shrinking open (max %d -> %d pages) failed without any fault: %v", total, newMax, err)}
	}
	counts := d0.Counts()
	if s0 := f0.VerifState(); uint64(s0.DataEnd) < uint64(used)+2 {
		c["shrink-release-ran"]++
	}
	f0.Close()
	for _, k := range []simdisk.CallKind{simdisk.CallWrite, simdisk.CallSync, simdisk.CallTruncate, simdisk.CallSize, simdisk.CallMMap} {
		for ord := 0; ord < counts[k]; ord++ {
			for burst := 1; burst <= 2; burst++ {
				fault := simdisk.Fault{Kind: k, Ordinal: ord, Burst: burst, NoSpace: rnd()%2 == 0}
				if k == simdisk.CallWrite && rnd()%2 == 0 {
					fault.Mode = simdisk.FailShort
				}
				desc := fmt.Sprintf("shrinking open (max %d -> %d pages, %d pages freed at the end) with failing %s call #%d burst %d", total, newMax, tail, k, ord, burst)
				d := simdisk.FromImage("shrinkfault", img)
				d.SetRecord(false)
				fc := fault
				d.Arm(&fc)
				f, err := txfile.VerifOpen(d, ropts)
				c["shrink-open-fault-runs"]++
				if err != nil {
					if d.Locked() || d.LiveViews() != 0 {
						return &harness.Violation{Clause: "open-fault-lock", Item: -1, Msg: desc + ": Open failed but left the file locked or mapped"}
					}
					d.Arm(nil)
					if f, err = txfile.VerifOpen(d, txfile.Options{}); err != nil {
						return &harness.Violation{Clause: "reopen-after-faults", Item: -1, Msg: fmt.Sprintf("%s: Open failed; the next clean Open failed too: %v", desc, err)}
					}
					vv := harness.VerifyAgainst(f, model, -1)
					f.Close()
					if vv != nil {
						vv.Msg = desc + ": Open failed; after a clean reopen: " + vv.Msg
						return vv
					}
					continue
				}
				if d.Injected() == 0 {
					f.Close()
					continue
				}
				c["shrink-open-fault-tolerated"]++
				d.Arm(nil)
				// the File must behave like the committed state: contents, partition, allocation of everything that is left
				snap := f.VerifState()
				vv := harness.VerifyAgainst(f, model, -1)
				if vv == nil {
					vv = harness.CheckPartition(&snap, model, -1, false)
				}
				if vv == nil && (snap.HdrMaxSize != newMax*ps || uint64(snap.MaxPages) != newMax) {
					// Open returned success: the new limit is what the active header and the allocator say
					vv = &harness.Violation{Clause: "resize-limit", Item: -1, Msg: fmt.Sprintf("opened with max size %d (%d pages): the active file header says %d, the allocator uses %d pages",
						newMax*ps, newMax, snap.HdrMaxSize, snap.MaxPages)}
				}
				if vv == nil {
					suffix := &harness.Program{Cfg: prog.Cfg, Items: []harness.Item{
						{Tx: &harness.Tx{Ops: []harness.Op{{K: harness.OpFill, A: 0}, {K: harness.OpWriteMany, A: 3, B: 4, C: 11}}, End: harness.EndRollback}},
						{Tx: &harness.Tx{Ops: []harness.Op{{K: harness.OpAlloc, A: 3}, {K: harness.OpWrite, A: 1 << 20, C: 12}, {K: harness.OpWriteMany, A: 5, B: 3, C: 13}, {K: harness.OpFree, A: 2}}, End: harness.EndCommit}},
						{Reopen: &harness.Reopen{Mode: 0}},
						{Tx: &harness.Tx{Ops: []harness.Op{{K: harness.OpAlloc, A: 2}, {K: harness.OpWriteMany, A: 0, B: 2, C: 14}}, End: harness.EndCommit}},
					}}
					sr := harness.NewRunnerOn(suffix, harness.RunOpts{CheckContent: true, CheckOwnership: true, Drain: true}, d, f, model)
					vv = sr.Run()
				} else {
					f.Close()
				}
				if vv == nil {
					d2 := simdisk.FromImage("shrinkfault2", img)
					d2.SetRecord(false)
					fc2 := fault
					d2.Arm(&fc2)
					vv = abandonedTxAfterTolerantOpen(d2, ropts, model, int(ps))
				}
				if vv != nil {
					vv.Msg = desc + ": Open returned success, but: " + vv.Msg
					return vv
				}
			}
		}
	}
	return nil
}

// overflowGrowFaults: a commit that has to grow the meta area by several pages at once on an almost
// full bounded file, inside a transaction that may use the overflow area: the last free data pages
// AND pages beyond the maximum size are moved into the meta area by one request (only commit-time
// requests, for free list or mapping pages, ask for more than one page). Every write and sync call of
// that commit fails once; the failed commit must leave no trace (allocator state, ownership
// partition, contents), a following transaction and a reopen must work.
func overflowGrowFaults(seed uint64, c map[string]int) *harness.Violation {
	rnd := harness.NewRand(seed ^ 0x0f10)
	total := 290 + int(rnd()%60)
	leave := 1 + int(rnd()%3)
	nfree := 127 + int(rnd()%12)
	if rnd()%3 == 0 {
		nfree = 253 + int(rnd()%8) // three free list pages
		total += 260
	}
	prog := &harness.Program{Cfg: harness.Config{PageSize: 1024, MaxPages: uint(total), InitMeta: uint32(rnd() % 3)}, Items: []harness.Item{
		{Tx: &harness.Tx{Ops: []harness.Op{{K: harness.OpFill, A: leave}, {K: harness.OpWrite, A: 0, C: 41}, {K: harness.OpWrite, A: 7, C: 42}}, End: harness.EndCommit}},
		{Tx: &harness.Tx{Overflow: true, Ops: []harness.Op{{K: harness.OpFreeMany, A: int(rnd() % 8), B: nfree, C: 2}}, End: harness.EndCommit}, Tag: "G"},
		{Tx: &harness.Tx{Overflow: true, Ops: []harness.Op{{K: harness.OpAlloc, A: 3}, {K: harness.OpWrite, A: 1 << 20, C: 43}, {K: harness.OpWriteMany, A: 2, B: 3, C: 44}}, End: harness.EndCommit}},
		{Tx: &harness.Tx{Ops: []harness.Op{{K: harness.OpAlloc, A: 2}, {K: harness.OpWrite, A: 1 << 20, C: 45}}, End: harness.EndCommit}},
	}}
	// reference run: where are the I/O calls of the commit of G, and did it take the mixed path?
	ref, v := harness.NewRunner(prog, harness.RunOpts{Drain: true, CheckContent: true, CheckOwnership: true, TrackCommits: true})
	if v != nil {
		return v
	}
	var before, after [simdisk.NumCallKinds]int
	var s0, s1 txfile.VerifSnapshot
	for i := range prog.Items {
		if i == 1 {
			s0 = ref.F.VerifState()
			cs := ref.Disk.Counts()
			before[simdisk.CallWrite], before[simdisk.CallSync] = cs[simdisk.CallWrite], cs[simdisk.CallSync]
		}
		if v := ref.SafeRunItem(i, &prog.Items[i]); v != nil {
			ref.Finish()
			return v
		}
		if i == 1 {
			s1 = ref.F.VerifState()
			cs := ref.Disk.Counts()
			after[simdisk.CallWrite], after[simdisk.CallSync] = cs[simdisk.CallWrite], cs[simdisk.CallSync]
		}
	}
	if v := ref.Finish(); v != nil {
		return v
	}
	avail0 := int(s0.DataAvail)
	if uint(s0.DataEnd) < s0.MaxPages {
		avail0 += int(s0.MaxPages) - int(s0.DataEnd)
	}
	c["overflow-grow-scenarios"]++
	if avail0 >= 1 && uint(s1.MetaEnd) > s1.MaxPages && s1.MetaTotal >= s0.MetaTotal+2 {
		// data pages were available, and the meta area still had to reach beyond the maximum size
		c["overflow-grow-mixed-data+overflow"]++
	}
	skip := func(int, *harness.Item) bool { return false }
	for _, k := range []simdisk.CallKind{simdisk.CallWrite, simdisk.CallSync} {
		for ord := before[k]; ord < after[k]; ord++ {
			for _, m := range modesFor(k) {
				fp := faultPlan{simdisk.Fault{Kind: k, Ordinal: ord, Burst: 1, Mode: m, NoSpace: rnd()%2 == 0}}
				fr, v := runWithFault(prog, fp, skip, false)
				c["overflow-grow-fault-runs"]++
				if fr != nil {
					c["overflow-grow-commit-failed"] += fr.Counters["failed-commit-state-compared"]
				}
				if v != nil {
					v.Msg = fmt.Sprintf("overflow-grow scenario (%d pages of 1 KiB, %d left free, %d alternate pages freed with the overflow area enabled), fault plan {%s}: %s", total, leave, nfree, fp.String(), v.Msg)
					return v
				}
			}
		}
	}
	return nil
}

// mixedBatchFaults: a write failure inside a writer batch that holds page writes of TWO transactions.
// The background writer is parked at its first write while a transaction that is then closed without
// Commit (its flushed pages stay queued: Close does not wait for the writer) and a second transaction
// queue their page writes; then one write call of the batch fails (every position is tried, error
// before effect and short write) and the second transaction commits. If Commit returns nil all its
// pages must hold the new contents (in process and after a reopen), otherwise the old state must be
// intact; afterwards a further transaction commits.
func mixedBatchFaults(pageSize uint32, seed uint64, c map[string]int) (v *harness.Violation) {
	defer func() {
		if x := recover(); x != nil {
			v = &harness.Violation{Clause: "panic", Item: -1, Msg: fmt.Sprintf("mixed writer batch under a write failure: panic: %v [%s]", x, harness.TrimStack(debug.Stack()))}
		}
	}()
	ps := int(pageSize)
	rnd := harness.NewRand(seed ^ 0xba7c4)
	n0 := 10 + int(rnd()%8)
	for k := 0; k < 40; k++ {
		for _, mode := range []simdisk.FaultMode{simdisk.FailBefore, simdisk.FailShort} {
			d := simdisk.New("mixed")
			d.SetRecord(false)
			f, err := txfile.VerifOpen(d, txfile.Options{PageSize: pageSize, MaxSize: 1024 * uint64(pageSize), InitMetaArea: 16})
			if err != nil {
				return &harness.Violation{Clause: "create", Item: -1, Msg: err.Error()}
			}
			model := map[txfile.PageID][]byte{}
			fail := func(clause, format string, args ...interface{}) *harness.Violation {
				func() {
					defer func() { recover() }()
					f.Close()
				}()
				return &harness.Violation{Clause: clause, Item: -1, Msg: fmt.Sprintf("mixed writer batch, failing write #%d (mode %d): ", k, mode) + fmt.Sprintf(format, args...)}
			}
			// tx0: committed pages
			tx, _ := f.Begin()
			pages, err := tx.AllocN(n0)
			if err != nil {
				return fail("alloc-error", "%v", err)
			}
			var ids []txfile.PageID
			for i, pg := range pages {
				b := harness.Content(880000+i, ps)
				pg.SetBytes(append([]byte(nil), b...))
				model[pg.ID()] = b
				ids = append(ids, pg.ID())
			}
			if err := tx.Commit(); err != nil {
				return fail("commit-error", "setup commit failed: %v", err)
			}
			f.VerifDrainWriter()
			// park the writer, queue the writes of tx1 (abandoned) and tx2
			parked := d.Hold(simdisk.CallWrite)
			tx1, _ := f.Begin()
			// the first page of tx1 is flushed alone: the writer takes it and parks in that write; everything
			// queued from now on (rest of tx1, tx2) ends up together in the writer's next batch
			if pg, err := tx1.Page(ids[1]); err == nil {
				pg.SetBytes(harness.Content(881001, ps))
				pg.Flush()
			}
			select {
			case <-parked:
			case <-time.After(HangTimeout):
				return fail("hang", "the background writer did not start writing")
			}
			for i := 3; i < n0; i += 2 {
				if pg, err := tx1.Page(ids[i]); err == nil {
					pg.SetBytes(harness.Content(881000+i, ps))
				}
			}
			if np, err := tx1.AllocN(2); err == nil {
				for _, pg := range np {
					pg.SetBytes(harness.Content(881500, ps))
				}
			}
			tx1.Flush()
			tx1.Close()
			tx2, err := f.Begin()
			if err != nil {
				d.Release()
				return fail("begin", "Begin after an abandoned transaction failed: %v", err)
			}
			want := map[txfile.PageID][]byte{}
			for id, b := range model {
				want[id] = b
			}
			for i := 0; i < n0; i += 2 {
				if pg, err := tx2.Page(ids[i]); err == nil {
					b := harness.Content(882000+i, ps)
					pg.SetBytes(append([]byte(nil), b...))
					want[ids[i]] = b
				}
			}
			tx2.Flush()
			queued := f.VerifWriterQueue().Scheduled
			if k > queued+3 {
				d.Release()
				tx2.Close()
				f.Close()
				return nil // every position of this batch has been tried
			}
			fault := simdisk.Fault{Kind: simdisk.CallWrite, Ordinal: k, Burst: 1, Mode: mode}
			d.Arm(&fault)
			d.Release()
			cres := make(chan error, 1)
			go func() { cres <- tx2.Commit() }()
			select {
			case err = <-cres:
			case <-time.After(30 * time.Second):
				return &harness.Violation{Clause: "hang", Item: -1, Msg: fmt.Sprintf("mixed writer batch, failing write #%d (mode %d): Commit of the second transaction does not return", k, mode)}
			}
			c["mixed-batch-runs"]++
			if os.Getenv("VERIF_QDEBUG") != "" {
				fmt.Fprintf(os.Stderr, "k=%d mode=%d queued=%d commit=%v injected=%d\n", k, mode, queued, err, d.Injected())
			}
			d.Arm(nil)
			f.VerifDrainWriter()
			state := model
			if err == nil {
				state = want
				c["mixed-batch-commit-ok"]++
			} else {
				c["mixed-batch-commit-failed"]++
			}
			check := func(file *txfile.File, when string) *harness.Violation {
				rtx, err := file.BeginReadonly()
				if err != nil {
					return fail("begin", "%s: BeginReadonly failed: %v", when, err)
				}
				defer rtx.Close()
				for id, b := range state {
					pg, err := rtx.Page(id)
					var got []byte
					if err == nil {
						got, err = pg.Bytes()
					}
					if err != nil {
						return fail("content-access", "%s: page %d: %v", when, id, err)
					}
					if string(got) != string(b) {
						return fail("content-mismatch", "%s: page %d reads %s, expected %s", when, id, harness.Stamp(got), harness.Stamp(b))
					}
				}
				return nil
			}
			commitErr := err
			if vv := check(f, fmt.Sprintf("in process (Commit returned %v)", commitErr)); vv != nil {
				return vv
			}
			// a further transaction commits
			tx3, err := f.Begin()
			if err != nil {
				return fail("begin", "Begin after the failure stopped: %v", err)
			}
			if pg, err := tx3.Page(ids[0]); err == nil {
				b := harness.Content(883000+k, ps)
				pg.SetBytes(append([]byte(nil), b...))
				state[ids[0]] = b
			}
			if err := tx3.Commit(); err != nil {
				return fail("post-fault-commit-failed", "the failure had stopped, but the next Commit failed: %v", err)
			}
			if err := f.Close(); err != nil {
				return fail("close", "%v", err)
			}
			f, err = txfile.VerifOpen(d, txfile.Options{})
			if err != nil {
				return fail("reopen-after-faults", "reopen failed: %v", err)
			}
			if vv := check(f, fmt.Sprintf("after reopen (Commit had returned %v)", commitErr)); vv != nil {
				return vv
			}
			f.Close()
		}
	}
	return nil
}
