package checks

import (
	"testing"

	"pgregory.net/rapid"

	"verif/harness"
)

func TestC08(t *testing.T) {
	th := thorough()
	params := C08Params(th)
	checkFile(t, "C08", func(rt *rapid.T) *harness.Program {
		p := harness.GenProgram(rt, params)
		thr := uint64(0)
		if th {
			thr = 1
		}
		p.Aux = []uint64{0, rapid.Uint64().Draw(rt, "faultseed"), thr}
		return p
	}, func(p *harness.Program) Result { return RunC08(p, th) })
}
