package checks

import (
	"testing"

	"pgregory.net/rapid"

	"verif/harness"
)

func TestC08(t *testing.T) {
	th := thorough()
	params := C08Params(th)
	checkFile(t, "C08", func(rt *rapid.T) *harness.Program {
		gp := params
		if rapid.IntRange(0, 3).Draw(rt, "smallFile") == 0 {
			// a small bounded file that runs full, transactions that use the overflow area: commits fail for
			// lack of space as well as by injected failures, rollbacks truncate, overflow pages get released
			gp.MaxPages, gp.MinPages, gp.NoFill, gp.Overflow, gp.SmallPages = 128, 0, false, true, false
		}
		p := harness.GenProgram(rt, gp)
		thr := uint64(0)
		if th {
			thr = 1
		}
		p.Aux = []uint64{0, rapid.Uint64().Draw(rt, "faultseed"), thr}
		return p
	}, func(p *harness.Program) Result { return RunC08(p, th) })
}
