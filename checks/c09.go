package checks

import (
	"bytes"
	"encoding/json"
	"fmt"
	"runtime"
	"sync"
	"sync/atomic"
	"time"

	txfile "github.com/elastic/go-txfile"

	"verif/harness"
	"verif/simdisk"
)

func init() {
	fr := fileRunner(RunC09a)
	Runners["C09"] = func(raw json.RawMessage) (Result, error) {
		var probe struct {
			Actors  []json.RawMessage `json:"actors"`
			Writers []json.RawMessage `json:"writers"`
		}
		if json.Unmarshal(raw, &probe) == nil {
			if probe.Actors != nil {
				var p LockProgram
				if err := json.Unmarshal(raw, &p); err != nil {
					return Result{}, err
				}
				return Guard(func() Result { return RunC09c(&p) }), nil
			}
			if probe.Writers != nil {
				var p StressProgram
				if err := json.Unmarshal(raw, &p); err != nil {
					return Result{}, err
				}
				return Guard(func() Result { return RunC09b(&p) }), nil
			}
		}
		return fr(raw)
	}
	harness.Specs["C09"] = &harness.PropSpec{
		ID: "C09", Test: "TestC09", Kind: "file", Level: "exploration", Race: true,
		Quick: 640, Thorough: 4000,
		Rule: "three generated case families, all under the Go race detector: (a) sequential file programs covering every way a transaction or open-time " +
			"maintenance step can end (commit, commit failing for space, commit failing by an injected I/O fault, rollback, close, double close, max-size update on " +
			"open): lock state (hook) must be idle whenever no transaction is open and Begin/BeginReadonly/File.Close must return at the end; (b) concurrent stress: " +
			"R reader goroutines, M model-writer goroutines, contender goroutines running empty write transactions, generated yield patterns, a closer that calls " +
			"File.Close while the last transactions are still finishing: race detector silent, every goroutine finishes, never two write transactions active, final " +
			"contents equal the model; (c) generated schedules of reader/committing writer/rolling-back writer/closer lock-operation sequences executed on a " +
			"standalone instance of the real lock type (an operation that must block runs in its own goroutine and must not return before it is enabled, and must " +
			"return once it is): no stuck state, exclusive implies no shared holder, idle at the end; non-trivial = (a) program with a failed commit or a max-size " +
			"update, (b) run in which >=2 transactions overlapped in time, (c) schedule with >=1 blocked-then-woken actor; distinct = distinct case hash",
		Assume: []string{
			"(b) does not own the schedule: absence of deadlock there is statistical; the watchdog only fires after 120 s without progress",
			"File.Close is only called after every goroutine has made its last Begin call (using a File after Close is documented to panic)",
		},
	}
}

// ---------- (a) sequential idle invariant ----------

// RunC09a: sequential program with lock-idle oracle, then a fault variant.
func RunC09a(p *harness.Program) Result {
	o := harness.RunOpts{CheckContent: true, CheckLockIdle: true, CheckResize: true, Drain: true, NoFinalClose: true}
	r, v := harness.NewRunner(p, o)
	if v != nil {
		return Result{V: v}
	}
	for i := range p.Items {
		if v := r.SafeRunItem(i, &p.Items[i]); v != nil {
			return Result{V: v, Counters: r.Counters}
		}
	}
	c := r.Counters
	// at the end: read tx, write tx, double close of a tx, File.Close all return
	if v := endOfLifeCalls(r); v != nil {
		return Result{V: v, Counters: c}
	}
	// one fault variant (only lock/hang clauses are of interest here)
	if seed := aux(p, 1); seed != 0 {
		skip := func(i int, it *harness.Item) bool { return it.Reopen != nil }
		ref, v := harness.NewRunner(p, harness.RunOpts{Drain: true, SkipItem: skip})
		if v == nil {
			ref.Disk.Arm(nil)
			if ref.Run() == nil {
				counts := ref.Disk.Counts()
				rnd := harness.NewRand(seed)
				var ks []simdisk.CallKind
				for _, k := range []simdisk.CallKind{simdisk.CallWrite, simdisk.CallSync} {
					if counts[k] > 0 {
						ks = append(ks, k)
					}
				}
				if len(ks) > 0 {
					k := ks[rnd()%uint64(len(ks))]
					fp := faultPlan{simdisk.Fault{Kind: k, Ordinal: int(rnd() % uint64(counts[k])), Burst: 1 + int(rnd()%3)}}
					fr, fv := runWithFault(p, fp, skip, false)
					if fr != nil && fr.Counters["commit-failed-by-fault"] > 0 {
						c["commit-failed-by-fault"]++
					}
					if fv != nil && (fv.Clause == "lock-not-idle" || fv.Clause == "hang") {
						fv.Msg = "fault plan {" + fp.String() + "}: " + fv.Msg
						return Result{V: fv, Counters: c}
					}
				}
			}
		}
	}
	nt := has(c, "commit-failed", "resize", "commit-failed-by-fault")
	return Result{Counters: c, Nontrivial: nt}
}

func endOfLifeCalls(r *harness.Runner) (v *harness.Violation) {
	defer func() {
		if x := recover(); x != nil {
			v = &harness.Violation{Clause: "panic", Item: -1, Msg: fmt.Sprintf("panic in end-of-life calls: %v", x)}
		}
	}()
	rtx, err := r.F.BeginReadonly()
	if err != nil {
		return &harness.Violation{Clause: "begin", Item: -1, Msg: fmt.Sprintf("BeginReadonly failed: %v", err)}
	}
	rtx.Close()
	rtx.Close() // double close is documented to be safe
	wtx, err := r.F.Begin()
	if err != nil {
		return &harness.Violation{Clause: "begin", Item: -1, Msg: fmt.Sprintf("Begin failed: %v", err)}
	}
	wtx.Close()
	wtx.Close()
	if ls := r.F.VerifLockState(); ls.SharedCount != 0 || ls.PendingSet || ls.ReservedHeld {
		return &harness.Violation{Clause: "lock-not-idle", Item: -1, Msg: fmt.Sprintf("after closing all transactions the lock state is %+v", ls)}
	}
	// File.Close while a write transaction is (only) open: Close has to wait for it, and until the
	// writer ends readers must not be locked out (a writer that needs a read transaction to finish
	// would deadlock with the waiting Close otherwise)
	f := r.F
	wtx, err = f.Begin()
	if err != nil {
		return &harness.Violation{Clause: "begin", Item: -1, Msg: fmt.Sprintf("Begin failed: %v", err)}
	}
	closed := make(chan error, 1)
	go func() { closed <- f.Close() }()
	for i := 0; i < 100; i++ {
		runtime.Gosched()
	}
	time.Sleep(time.Millisecond)
	ls := f.VerifLockState()
	type br struct {
		tx  *txfile.Tx
		err error
	}
	began := make(chan br, 1)
	go func() {
		tx, err := f.BeginReadonly()
		began <- br{tx, err}
	}()
	var hang *harness.Violation
	select {
	case b := <-began:
		if b.err == nil {
			b.tx.Close()
		}
	case <-time.After(10 * time.Second):
		hang = &harness.Violation{Clause: "hang", Item: -1, Msg: fmt.Sprintf("BeginReadonly blocks while a write transaction is open (not committing) and File.Close waits for it; lock state %+v", ls)}
	}
	wtx.Close()
	select {
	case <-closed:
	case <-time.After(HangTimeout):
		return &harness.Violation{Clause: "hang", Item: -1, Msg: "File.Close did not return after the last transaction was closed"}
	}
	r.F = nil
	if hang != nil {
		return hang
	}
	if ls.PendingSet {
		return &harness.Violation{Clause: "close-locks-out-readers", Item: -1, Msg: fmt.Sprintf("File.Close waiting for an open (not committing) write transaction has set the pending lock: new readers are locked out; lock state %+v", ls)}
	}
	if r.Disk.Locked() {
		return &harness.Violation{Clause: "close-lock", Item: -1, Msg: "file lock still held after Close"}
	}
	return nil
}

// ---------- (b) concurrent stress ----------

// StressProgram is a generated concurrent scenario.
type StressProgram struct {
	Cfg        harness.Config `json:"cfg"`
	Prefix     []harness.Item `json:"prefix"`
	Writers    [][]harness.Tx `json:"writers"`    // model writers: each a list of transactions
	Readers    [][]int        `json:"readers"`    // per reader: list of "pages to read" counts per read transaction
	Contenders []int          `json:"contenders"` // per contender: number of empty write transactions
	Yields     []int          `json:"yields"`     // yield pattern
	EarlyClose bool           `json:"early_close"`
}

func (p *StressProgram) JSON() []byte {
	b, _ := json.Marshal(p)
	return b
}

// RunC09b executes the concurrent stress scenario.
func RunC09b(p *StressProgram) Result {
	prog := &harness.Program{Cfg: p.Cfg, Items: p.Prefix}
	r, v := harness.NewRunner(prog, harness.RunOpts{CheckContent: true, Drain: false, NoFinalClose: true, Concurrent: true})
	if v != nil {
		return Result{V: v}
	}
	for i := range prog.Items {
		if v := r.SafeRunItem(i, &prog.Items[i]); v != nil {
			return Result{V: v, Counters: r.Counters}
		}
	}
	c := r.Counters
	f := r.F

	var (
		wmu        sync.Mutex // serialises model writers (model + Runner state)
		activeW    int32
		maxActiveW int32
		activeTx   int32
		overlaps   int32
		errMu      sync.Mutex
		firstErr   *harness.Violation
		wg         sync.WaitGroup
		lastBegin  sync.WaitGroup // counts goroutines that may still call Begin
	)
	fail := func(v *harness.Violation) {
		errMu.Lock()
		if firstErr == nil {
			firstErr = v
		}
		errMu.Unlock()
	}
	yieldIdx := int32(0)
	yield := func() {
		if len(p.Yields) == 0 {
			return
		}
		i := int(atomic.AddInt32(&yieldIdx, 1)) % len(p.Yields)
		for k := 0; k < p.Yields[i]; k++ {
			runtime.Gosched()
		}
	}
	enter := func(write bool) {
		if n := atomic.AddInt32(&activeTx, 1); n >= 2 {
			atomic.AddInt32(&overlaps, 1)
		}
		if write {
			n := atomic.AddInt32(&activeW, 1)
			for {
				m := atomic.LoadInt32(&maxActiveW)
				if n <= m || atomic.CompareAndSwapInt32(&maxActiveW, m, n) {
					break
				}
			}
		}
	}
	leave := func(write bool) {
		if write {
			atomic.AddInt32(&activeW, -1)
		}
		atomic.AddInt32(&activeTx, -1)
	}

	guard := func(name string, fn func(release func())) {
		wg.Add(1)
		lastBegin.Add(1)
		go func() {
			defer wg.Done()
			done := false
			release := func() {
				if !done {
					done = true
					lastBegin.Done()
				}
			}
			defer release()
			defer func() {
				if x := recover(); x != nil {
					fail(&harness.Violation{Clause: "panic", Item: -1, Msg: fmt.Sprintf("%s paniced: %v", name, x)})
				}
			}()
			early := func() {
				// with EarlyClose the closer may start as soon as every actor has made its
				// last Begin call: File.Close then runs concurrently with the last open transactions
				if p.EarlyClose {
					release()
				}
			}
			fn(early)
		}()
	}

	// model writers
	for wi := range p.Writers {
		txs := p.Writers[wi]
		guard(fmt.Sprintf("writer %d", wi), func(lastBeginDone func()) {
			for ti := range txs {
				yield()
				wmu.Lock()
				last := ti == len(txs)-1
				v := r.RunTxHooked(1000+wi*100+ti, &txs[ti], func() {
					if last {
						lastBeginDone()
					}
					enter(true)
					yield()
				}, func() { leave(true) })
				wmu.Unlock()
				if v != nil {
					fail(v)
					return
				}
			}
		})
	}
	// contenders: empty write transactions, not serialised by the harness
	for ci, n := range p.Contenders {
		n := n
		guard(fmt.Sprintf("contender %d", ci), func(lastBeginDone func()) {
			for i := 0; i < n; i++ {
				yield()
				tx, err := f.Begin()
				if err != nil {
					fail(&harness.Violation{Clause: "begin", Item: -1, Msg: fmt.Sprintf("Begin failed: %v", err)})
					return
				}
				if i == n-1 {
					lastBeginDone()
				}
				enter(true)
				yield()
				leave(true)
				var e error
				switch i % 3 {
				case 0:
					e = tx.Commit()
				case 1:
					e = tx.Rollback()
				default:
					e = tx.Close()
				}
				if e != nil {
					fail(&harness.Violation{Clause: "txend", Item: -1, Msg: fmt.Sprintf("ending an empty write transaction failed: %v", e)})
					return
				}
			}
		})
	}
	// readers: read pages twice inside one transaction; contents must be stable
	for ri := range p.Readers {
		script := p.Readers[ri]
		guard(fmt.Sprintf("reader %d", ri), func(lastBeginDone func()) {
			for si, npages := range script {
				yield()
				// Take the snapshot of the model together with the read transaction:
				// model writers hold wmu for their whole transaction, so no state
				// change can happen between reading r.C and Begin returning.
				wmu.Lock()
				snap := r.C
				tx, err := f.BeginReadonly()
				wmu.Unlock()
				if err != nil {
					fail(&harness.Violation{Clause: "begin", Item: -1, Msg: fmt.Sprintf("BeginReadonly failed: %v", err)})
					return
				}
				if si == len(script)-1 {
					lastBeginDone()
				}
				enter(false)
				hs := snap.Handles(func(h int, p harness.MPage) bool { return p.Data != nil })
				if len(hs) > npages {
					hs = hs[:npages]
				}
				for round := 0; round < 2; round++ {
					for i, h := range hs {
						mp := snap.Pages[h]
						pg, err := tx.Page(mp.ID)
						var b []byte
						if err == nil {
							b, err = pg.Bytes()
						}
						if err != nil {
							fail(&harness.Violation{Clause: "reader-error", Item: -1, Msg: fmt.Sprintf("reader %d: page %d of its snapshot: %v", ri, mp.ID, err)})
							break
						}
						if !bytes.Equal(b, mp.Data) {
							fail(&harness.Violation{Clause: "reader-snapshot", Item: -1, Msg: fmt.Sprintf("reader %d (round %d): page %d reads %s, its snapshot has %s",
								ri, round, mp.ID, harness.Stamp(b), harness.Stamp(mp.Data))})
							break
						}
						if i%3 == 2 {
							yield()
						}
					}
					if tx.Root() != snap.RootID {
						fail(&harness.Violation{Clause: "reader-snapshot", Item: -1, Msg: fmt.Sprintf("reader %d: root %d, its snapshot has %d", ri, tx.Root(), snap.RootID)})
					}
					yield()
				}
				leave(false)
				tx.Close()
			}
		})
	}

	// closer
	closed := make(chan error, 1)
	go func() {
		lastBegin.Wait()
		closed <- f.Close()
	}()

	done := make(chan struct{})
	go func() { wg.Wait(); close(done) }()
	select {
	case <-done:
	case <-time.After(HangTimeout):
		ls := "?"
		func() {
			defer func() { recover() }()
			ls = fmt.Sprintf("%+v", f.VerifLockState())
		}()
		return Result{V: &harness.Violation{Clause: "hang", Item: -1, Msg: "concurrent transactions did not finish (deadlock); lock state " + ls}, Counters: c}
	}
	select {
	case err := <-closed:
		if err != nil {
			fail(&harness.Violation{Clause: "close", Item: -1, Msg: fmt.Sprintf("File.Close failed: %v", err)})
		}
	case <-time.After(HangTimeout):
		return Result{V: &harness.Violation{Clause: "hang", Item: -1, Msg: "File.Close did not return although no transaction is open"}, Counters: c}
	}
	if firstErr != nil {
		return Result{V: firstErr, Counters: c}
	}
	if m := atomic.LoadInt32(&maxActiveW); m > 1 {
		return Result{V: &harness.Violation{Clause: "two-writers", Item: -1, Msg: fmt.Sprintf("%d write transactions were active at the same time", m)}, Counters: c}
	}
	// final contents equal the model (reopen)
	f2, err := txfile.VerifOpen(r.Disk, txfile.Options{})
	if err != nil {
		return Result{V: &harness.Violation{Clause: "reopen", Item: -1, Msg: fmt.Sprintf("reopen after concurrent phase failed: %v", err)}, Counters: c}
	}
	v = harness.VerifyAgainst(f2, r.C, -1)
	f2.Close()
	if v != nil {
		v.Msg = "after the concurrent phase: " + v.Msg
		return Result{V: v, Counters: c}
	}
	c["stress-run"]++
	ov := atomic.LoadInt32(&overlaps)
	if ov > 0 {
		c["stress-overlap"]++
	}
	return Result{Counters: c, Nontrivial: ov > 0}
}

// ---------- (c) schedules on the real lock object ----------

// LockProgram: actors (sequences of lock operations) and a schedule.
type LockProgram struct {
	Actors   []string `json:"actors"` // "reader" | "committer" | "rollbacker" | "closer"
	Schedule []int    `json:"schedule"`
}

func (p *LockProgram) JSON() []byte {
	b, _ := json.Marshal(p)
	return b
}

type lockOp struct {
	name  string
	which string // shared|reserved|pending|exclusive
	lock  bool
}

func actorOps(kind string) []lockOp {
	switch kind {
	case "reader":
		return []lockOp{{"Shared.Lock", "shared", true}, {"Shared.Unlock", "shared", false}}
	case "rollbacker":
		return []lockOp{{"Reserved.Lock", "reserved", true}, {"Reserved.Unlock", "reserved", false}}
	default: // committer, closer: reserved, pending, exclusive; release in reverse order
		return []lockOp{
			{"Reserved.Lock", "reserved", true}, {"Pending.Lock", "pending", true}, {"Exclusive.Lock", "exclusive", true},
			{"Exclusive.Unlock", "exclusive", false}, {"Pending.Unlock", "pending", false}, {"Reserved.Unlock", "reserved", false},
		}
	}
}

// RunC09c executes a schedule of lock operations on the real lock type.
func RunC09c(p *LockProgram) Result {
	c := map[string]int{}
	l := txfile.NewVerifLock()
	locker := func(which string) sync.Locker {
		switch which {
		case "shared":
			return l.Shared()
		case "reserved":
			return l.Reserved()
		case "pending":
			return l.Pending()
		}
		return l.Exclusive()
	}
	type actor struct {
		ops     []lockOp
		pc      int
		waiting chan struct{} // non-nil: a blocking Lock is running in a goroutine
		holdsEx bool
		holdsSh bool
		holdsRe bool
	}
	actors := make([]*actor, len(p.Actors))
	for i, k := range p.Actors {
		actors[i] = &actor{ops: actorOps(k)}
	}
	// harness-side expectation of the lock state
	shared, reservedHeld, pendingHolders, exclusiveHolders := 0, false, 0, 0

	mustBlock := func(op lockOp) bool {
		if !op.lock {
			return false
		}
		switch op.which {
		case "shared":
			return pendingHolders > 0
		case "reserved":
			return reservedHeld
		case "exclusive":
			return shared > 0
		}
		return false
	}
	applyModel := func(a *actor, op lockOp) {
		switch {
		case op.which == "shared" && op.lock:
			shared++
			a.holdsSh = true
		case op.which == "shared":
			shared--
			a.holdsSh = false
		case op.which == "reserved" && op.lock:
			reservedHeld = true
			a.holdsRe = true
		case op.which == "reserved":
			reservedHeld = false
			a.holdsRe = false
		case op.which == "pending" && op.lock:
			pendingHolders++
		case op.which == "pending":
			pendingHolders--
		case op.which == "exclusive" && op.lock:
			exclusiveHolders++
			a.holdsEx = true
		case op.which == "exclusive":
			exclusiveHolders--
			a.holdsEx = false
		}
	}
	violation := func(clause, format string, args ...interface{}) Result {
		return Result{V: &harness.Violation{Clause: clause, Item: -1, Msg: fmt.Sprintf(format, args...)}, Counters: c}
	}
	checkState := func(where string) *Result {
		st := l.State()
		if int(st.SharedCount) != shared || st.ReservedHeld != reservedHeld || st.PendingSet != (pendingHolders > 0) {
			r := violation("lock-state", "%s: lock reports %+v, expected shared=%d reserved=%v pending=%v", where, st, shared, reservedHeld, pendingHolders > 0)
			return &r
		}
		if exclusiveHolders > 0 && shared > 0 {
			r := violation("lock-exclusive", "%s: exclusive lock held while %d shared holders exist", where, shared)
			return &r
		}
		return nil
	}

	// only one waiter per lock kind at a time keeps the expectation deterministic
	waitingOn := map[string]int{}
	steps := 0
	pendingCheck := "" // state check deferred until woken waiters have been accounted for
	for si := 0; ; si++ {
		// wake-ups: a waiting actor whose operation is now enabled must return
		progressed := true
		for progressed {
			progressed = false
			for ai, a := range actors {
				if a.waiting == nil {
					continue
				}
				op := a.ops[a.pc]
				if mustBlock(op) {
					select {
					case <-a.waiting:
						return violation("lock-early", "actor %d (%s): %s returned although it must block (shared=%d reserved=%v pending=%d)",
							ai, p.Actors[ai], op.name, shared, reservedHeld, pendingHolders)
					default:
					}
					continue
				}
				select {
				case <-a.waiting:
				case <-time.After(HangTimeout):
					return violation("lock-stuck", "actor %d (%s): %s does not return although it is enabled (shared=%d reserved=%v pending=%d)",
						ai, p.Actors[ai], op.name, shared, reservedHeld, pendingHolders)
				}
				a.waiting = nil
				waitingOn[op.which]--
				applyModel(a, op)
				a.pc++
				c["blocked-then-woken"]++
				progressed = true
				// the state is compared once all woken waiters have been accounted for
				pendingCheck = "after wake-up of " + op.name
			}
		}
		if pendingCheck != "" {
			if r := checkState(pendingCheck); r != nil {
				return *r
			}
			pendingCheck = ""
		}
		// enabled actors: not waiting, not finished
		var enabled []int
		unfinished := 0
		for ai, a := range actors {
			if a.pc >= len(a.ops) {
				continue
			}
			unfinished++
			if a.waiting != nil {
				continue
			}
			op := a.ops[a.pc]
			if mustBlock(op) && waitingOn[op.which] > 0 && op.which != "shared" {
				// at most one waiter on the reserved/exclusive lock keeps the expectation
				// deterministic; any number of readers may wait for the pending lock
				// (all of them must be woken when it is released)
				continue
			}
			enabled = append(enabled, ai)
		}
		if unfinished == 0 {
			break
		}
		if len(enabled) == 0 {
			// everybody waits: by construction of the protocols this is a deadlock
			return violation("lock-deadlock", "no actor can proceed: shared=%d reserved=%v pending=%d exclusive=%d", shared, reservedHeld, pendingHolders, exclusiveHolders)
		}
		choice := 0
		if si < len(p.Schedule) {
			choice = p.Schedule[si]
		}
		ai := enabled[choice%len(enabled)]
		a := actors[ai]
		op := a.ops[a.pc]
		steps++
		if steps > 10000 {
			return violation("harness", "schedule does not terminate")
		}
		lk := locker(op.which)
		if !op.lock {
			lk.Unlock()
			applyModel(a, op)
			a.pc++
		} else if mustBlock(op) {
			ch := make(chan struct{})
			a.waiting = ch
			waitingOn[op.which]++
			go func() { lk.Lock(); close(ch) }()
			// give the goroutine a chance to (wrongly) get through
			for k := 0; k < 3; k++ {
				runtime.Gosched()
			}
			continue
		} else {
			done := make(chan struct{})
			go func() { lk.Lock(); close(done) }()
			select {
			case <-done:
			case <-time.After(HangTimeout):
				return violation("lock-stuck", "actor %d (%s): %s blocks although it is enabled (shared=%d reserved=%v pending=%d)", ai, p.Actors[ai], op.name, shared, reservedHeld, pendingHolders)
			}
			applyModel(a, op)
			a.pc++
		}
		pendingCheck = "after " + op.name
	}
	st := l.State()
	if st.SharedCount != 0 || st.PendingSet || st.ReservedHeld {
		return violation("lock-not-idle", "all actors finished, lock state is %+v", st)
	}
	c["lock-schedule"]++
	c["lock-steps"] = steps
	return Result{Counters: c, Nontrivial: c["blocked-then-woken"] > 0}
}
