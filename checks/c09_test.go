package checks

import (
	"testing"

	"pgregory.net/rapid"

	"verif/harness"
)

func genStress(rt *rapid.T, thorough bool) *StressProgram {
	params := harness.GenParams{MaxItems: 3, MaxOps: 6, MaxPages: 256, NoFill: true}
	p := &StressProgram{Cfg: harness.GenConfig(rt, params)}
	p.Prefix = rapid.SliceOfN(rapid.Custom(func(t *rapid.T) harness.Item { return harness.Item{Tx: harness.GenTx(t, params)} }), 0, 3).Draw(rt, "prefix")
	nw := rapid.IntRange(1, 3).Draw(rt, "writers")
	for i := 0; i < nw; i++ {
		n := rapid.IntRange(1, 4).Draw(rt, "ntx")
		var txs []harness.Tx
		for j := 0; j < n; j++ {
			txs = append(txs, *harness.GenTx(rt, params))
		}
		p.Writers = append(p.Writers, txs)
	}
	nr := rapid.IntRange(0, 4).Draw(rt, "readers")
	for i := 0; i < nr; i++ {
		p.Readers = append(p.Readers, rapid.SliceOfN(rapid.IntRange(0, 12), 1, 5).Draw(rt, "rscript"))
	}
	nc := rapid.IntRange(0, 3).Draw(rt, "contenders")
	for i := 0; i < nc; i++ {
		p.Contenders = append(p.Contenders, rapid.IntRange(1, 6).Draw(rt, "ctx"))
	}
	p.Yields = rapid.SliceOfN(rapid.IntRange(0, 5), 1, 8).Draw(rt, "yields")
	p.EarlyClose = rapid.IntRange(0, 1).Draw(rt, "earlyClose") == 1
	return p
}

func genLockProgram(rt *rapid.T) *LockProgram {
	p := &LockProgram{}
	n := rapid.IntRange(2, 7).Draw(rt, "actors")
	for i := 0; i < n; i++ {
		p.Actors = append(p.Actors, rapid.SampledFrom([]string{"reader", "reader", "reader", "committer", "rollbacker", "closer"}).Draw(rt, "kind"))
	}
	p.Schedule = rapid.SliceOfN(rapid.IntRange(0, 5), 0, 40).Draw(rt, "schedule")
	return p
}

func TestC09(t *testing.T) {
	th := thorough()
	rec := harness.NewRecorder("C09", "file")
	completed := false
	defer func() { rec.Flush(completed) }()
	FilterKnown = true

	// (c) lock schedules
	rec.SetKind("lock")
	rapid.Check(t, func(rt *rapid.T) {
		p := genLockProgram(rt)
		noteCase("C09", "lock", p.JSON())
		res := Guard(func() Result { return RunC09c(p) })
		rec.Case(p.JSON(), harness.HashBytes(p.JSON()), res.Counters, res.Nontrivial, res.V)
		abortOnHang(rec, res.V)
		if res.V != nil {
			rt.Fatalf("C09 violated: %v", res.V)
		}
	})

	// (b) concurrent stress
	rec.SetKind("stress")
	rapid.Check(t, func(rt *rapid.T) {
		p := genStress(rt, th)
		noteCase("C09", "stress", p.JSON())
		res := Guard(func() Result { return RunC09b(p) })
		rec.Case(p.JSON(), harness.HashBytes(p.JSON()), res.Counters, res.Nontrivial, res.V)
		abortOnHang(rec, res.V)
		if res.V != nil {
			rt.Fatalf("C09 violated: %v", res.V)
		}
	})

	// (a) sequential idle invariant
	params := harness.GenParams{MaxItems: 6, MaxOps: 7, MaxPages: 96, AbortHeavy: true, Reopen: true}
	checkFileRec(t, rec, "C09", func(rt *rapid.T) *harness.Program {
		p := genC14(rt, params)
		p.Aux = []uint64{0, rapid.Uint64().Draw(rt, "faultseed")}
		return p
	}, RunC09a)
	completed = true
}
