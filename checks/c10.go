package checks

import (
	"fmt"

	"verif/harness"
)

func init() {
	Runners["C10"] = fileRunner(RunC10)
	harness.Specs["C10"] = &harness.PropSpec{
		ID: "C10", Test: "TestC10", Kind: "file", Level: "exploration", FuzzTargets: []string{"FuzzC10"}, FuzzSeconds: 180,
		Quick: 4000, Thorough: 90000,
		Rule: "twin execution of a generated program with and without its interposed close/reopen items (plus a determinism control); compared: " +
			"success/failure and error kind of every step, every byte read, capacity probes (number of allocatable pages), user-visible allocator state; " +
			"within one run the complete internal state before Close must equal the state after Open; shapes force free lists / overwrite mappings " +
			"spanning several metadata pages, regions >= 255 pages (also initial meta areas of 254-257 pages), remaps, full files with metadata in the overflow area that is released again; non-trivial = a reopen happened while the free list or the mapping spanned " +
			">= 2 metadata pages, or a free region had >= 255 pages, or the file had been remapped; distinct = distinct program hash",
		Assume: []string{
			"page ids handed out after a reopen are not required to equal those of the never-closed instance (only outcomes are compared)",
			"no cross-run comparison of allocator state once the overflow area was enabled",
		},
	}
}

func C10Params(thorough bool) harness.GenParams {
	p := harness.GenParams{MaxItems: 8, MaxOps: 8, MaxPages: 640, Probe: true, BigAllocs: true, Shapes: true, SmallPages: true, Overflow: true}
	if thorough {
		p.MaxItems, p.MaxOps, p.SmallPages = 16, 12, false
	}
	return p
}

func fmtOutcome(o harness.Obs) string {
	return fmt.Sprintf("item %d op %d %s ok=%v err=%s hash=%x n=%d", o.Item, o.Op, o.Kind, o.OK, o.Err, o.Hash, o.N)
}

func runReopenTwin(p *harness.Program, skipR bool) twinRun {
	out := twinRun{snapAfter: map[int]string{}}
	o := harness.RunOpts{Record: true, Drain: true, CheckContent: true, CheckReopenState: true, NoFinalClose: true}
	r, v := harness.NewRunner(p, o)
	if v != nil {
		out.v = v
		return out
	}
	for i := range p.Items {
		it := &p.Items[i]
		if it.Tag == "R" && skipR {
			continue
		}
		if v := r.SafeRunItem(i, it); v != nil {
			out.v = v
			out.counters = r.Counters
			return out
		}
		s := r.F.VerifState()
		out.snapAfter[i] = userSnapshot(&s)
	}
	out.v = r.Finish()
	out.trace = r.Trace
	out.counters = r.Counters
	return out
}

func compareOutcomes(a, b *twinRun, p *harness.Program, withState bool) string {
	filter := func(tr []harness.Obs) []harness.Obs {
		var out []harness.Obs
		for _, o := range tr {
			if o.Kind != "reopen" {
				out = append(out, o)
			}
		}
		return out
	}
	ta, tb := filter(a.trace), filter(b.trace)
	for i := 0; i < len(ta) && i < len(tb); i++ {
		if fmtOutcome(ta[i]) != fmtOutcome(tb[i]) {
			return fmt.Sprintf("outcome differs: with reopen {%s}; never closed {%s}", fmtOutcome(ta[i]), fmtOutcome(tb[i]))
		}
	}
	if len(ta) != len(tb) {
		return fmt.Sprintf("number of observations differs: %d vs %d", len(ta), len(tb))
	}
	if withState {
		for i := range p.Items {
			if p.Items[i].Tag == "R" {
				continue
			}
			sa, oka := a.snapAfter[i]
			sb, okb := b.snapAfter[i]
			if oka && okb && sa != sb {
				return fmt.Sprintf("allocator state after item %d differs: with reopen {%s}; never closed {%s}", i, sa, sb)
			}
		}
	}
	return ""
}

// RunC10 executes the reopen twin comparison.
func RunC10(p *harness.Program) Result {
	a := runReopenTwin(p, false)
	if a.v != nil {
		return Result{V: a.v, Counters: a.counters}
	}
	c := a.counters
	nt := has(c, "reopen-multipage-freelist", "reopen-multipage-wal", "reopen-bigregion") || (has(c, "remap") && has(c, "reopen"))
	overflow := false
	for i := range p.Items {
		if tx := p.Items[i].Tx; tx != nil && tx.Overflow {
			overflow = true
		}
	}
	b := runReopenTwin(p, true)
	if b.v != nil {
		return Result{V: b.v, Counters: c}
	}
	if d := compareOutcomes(&a, &b, p, !overflow); d != "" {
		stable := confirmDiff(d, func() string {
			a2, b2 := runReopenTwin(p, false), runReopenTwin(p, true)
			if a2.v != nil || b2.v != nil {
				return "run failed"
			}
			// each variant has to agree with itself: the implementation iterates Go maps when it
			// flushes, which (rarely) changes how many metadata pages a commit needs and with it
			// the number of allocatable pages - in either variant
			if compareOutcomes(&a, &a2, p, !overflow) != "" || compareOutcomes(&b, &b2, p, !overflow) != "" {
				return "variant does not agree with itself"
			}
			return compareOutcomes(&a2, &b2, p, !overflow)
		}, 8)
		if !stable {
			c["unstable-diff"]++
			return Result{Counters: c}
		}
		return Result{V: &harness.Violation{Clause: "reopen-twin-diff", Item: -1, Msg: d}, Counters: c}
	}
	c["twin-compared"]++
	return Result{Counters: c, Nontrivial: nt}
}
