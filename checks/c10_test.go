package checks

import (
	"testing"

	"pgregory.net/rapid"

	"verif/harness"
)

func genC10(rt *rapid.T, params harness.GenParams) *harness.Program {
	prog := &harness.Program{Cfg: harness.GenConfig(rt, params)}
	// shaping prefix: reach the states the property names by construction
	tx := func(ops ...harness.Op) harness.Item {
		return harness.Item{Tx: &harness.Tx{Ops: ops, End: harness.EndCommit}}
	}
	reopen := func() harness.Item {
		return harness.Item{Reopen: &harness.Reopen{Mode: rapid.IntRange(0, 1).Draw(rt, "mode")}, Tag: "R"}
	}
	big := prog.Cfg.MaxPages == 0 || prog.Cfg.MaxPages >= 450
	switch sc := rapid.IntRange(0, 5).Draw(rt, "scenario"); {
	case sc == 0 && big: // fragmented free list spanning several metadata pages
		n := rapid.IntRange(280, 420).Draw(rt, "n")
		prog.Items = append(prog.Items,
			tx(harness.Op{K: harness.OpAlloc, A: n}, harness.Op{K: harness.OpWriteMany, A: 0, B: 0}),
			tx(harness.Op{K: harness.OpFreeMany, A: rapid.IntRange(0, 9).Draw(rt, "start"), B: rapid.IntRange(128, 200).Draw(rt, "cnt"), C: 2}),
			reopen())
	case sc == 1 && big: // overwrite mapping spanning several metadata pages
		n := rapid.IntRange(150, 260).Draw(rt, "n")
		prog.Items = append(prog.Items,
			tx(harness.Op{K: harness.OpAlloc, A: n}),
			tx(harness.Op{K: harness.OpWriteMany, A: 0, B: n, C: 11}),
			tx(harness.Op{K: harness.OpWriteMany, A: rapid.IntRange(0, 20).Draw(rt, "start"), B: rapid.IntRange(75, 150).Draw(rt, "cnt"), C: 22}),
			reopen())
	case sc == 2 && big: // free regions of 254/255/256/300+ pages
		n := rapid.IntRange(320, 420).Draw(rt, "n")
		prog.Items = append(prog.Items,
			tx(harness.Op{K: harness.OpAlloc, A: n}),
			tx(harness.Op{K: harness.OpFreeMany, A: rapid.IntRange(0, 12).Draw(rt, "start"), B: rapid.SampledFrom([]int{254, 255, 256, 300}).Draw(rt, "cnt"), C: 1}),
			reopen())
	}
	if prog.Cfg.MaxPages > 0 && rapid.IntRange(0, 5).Draw(rt, "overflowScenario") == 0 {
		// a completely full file whose metadata lives in the overflow area, which is then released again
		otx := func(ops ...harness.Op) harness.Item {
			return harness.Item{Tx: &harness.Tx{Overflow: true, Ops: ops, End: harness.EndCommit}}
		}
		prog.Items = append(prog.Items,
			tx(harness.Op{K: harness.OpFill, A: 0}),
			otx(harness.Op{K: harness.OpWriteMany, A: rapid.IntRange(0, 63).Draw(rt, "opick"), B: rapid.IntRange(1, 10).Draw(rt, "ocount"), C: 31},
				harness.Op{K: harness.OpFreeMany, A: rapid.IntRange(0, 63).Draw(rt, "fpick"), B: rapid.IntRange(0, 4).Draw(rt, "fcount"), C: 2}),
			reopen(),
			otx(harness.Op{K: harness.OpFreeMany, A: rapid.IntRange(0, 63).Draw(rt, "fpick2"), B: rapid.IntRange(1, 30).Draw(rt, "fcount2"), C: 1},
				harness.Op{K: harness.OpCheckpoint}),
			reopen(),
			tx(harness.Op{K: harness.OpAlloc, A: rapid.IntRange(1, 6).Draw(rt, "an")}, harness.Op{K: harness.OpWriteMany, A: 0, B: 3, C: 32}),
			reopen())
	}
	n := rapid.IntRange(2, params.MaxItems).Draw(rt, "n")
	for i := 0; i < n; i++ {
		it := harness.GenItem(rt, params)
		prog.Items = append(prog.Items, it)
		if rapid.IntRange(0, 2).Draw(rt, "reopenHere") == 0 {
			prog.Items = append(prog.Items, harness.Item{Reopen: &harness.Reopen{Mode: rapid.IntRange(0, 1).Draw(rt, "mode")}, Tag: "R"})
		}
	}
	prog.Items = append(prog.Items, harness.Item{Probe: true})
	return prog
}

func TestC10(t *testing.T) {
	params := C10Params(thorough())
	checkFile(t, "C10", func(rt *rapid.T) *harness.Program { return genC10(rt, params) }, RunC10)
}
