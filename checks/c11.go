package checks

import (
	"verif/harness"
)

func init() {
	Runners["C11"] = fileRunner(RunC11)
	harness.Specs["C11"] = &harness.PropSpec{
		ID: "C11", Test: "TestC11", Kind: "file", Level: "exploration",
		Quick: 6000, Thorough: 85000,
		Rule: "long generated histories (quick <= 60, thorough <= 300 short transactions of alloc/free/overwrite cycles, rollbacks, reopens) on bounded " +
			"files without overflow area; after every item: capacity probe (allocate until failure in a rolled back transaction) + live pages (model) + " +
			"FileStats.MetaArea (observer) + 2 == max pages; file extent (simulated disk high-water mark) <= max size; FileStats.DataAllocated == #live, " +
			"MetaArea/MetaAllocated == hook values; every page id below the data end marker is accounted for (no leak); non-trivial = >= 15 committed " +
			"transactions with frees, overwrites, a rollback and a re-used freed page; distinct = distinct program hash",
		Assume: []string{
			"the capacity probe relies on exact rollback (C07)",
			"no transaction enables the overflow area (the property excludes such files)",
		},
	}
}

func C11Params(thorough bool) harness.GenParams {
	p := harness.GenParams{MaxItems: 60, MinItems: 24, MaxOps: 6, Bounded: 1, MaxPages: 200, Reopen: true, NoFill: false}
	if thorough {
		p.MaxItems, p.MinItems, p.MaxPages = 300, 60, 400
	}
	return p
}

// RunC11 executes a file program with the space conservation oracles.
func RunC11(p *harness.Program) Result {
	o := harness.RunOpts{CheckCoverage: true, CheckStats: true, CheckSpace: true, Drain: true}
	r, v := harness.NewRunner(p, o)
	if v != nil {
		return Result{V: v}
	}
	v = r.Run()
	c := r.Counters
	nt := c["commit"] >= 15 && has(c, "commit-with-frees") && has(c, "overwrite") && has(c, "rollback", "txclose") && has(c, "reuse-freed")
	return Result{V: v, Counters: c, Nontrivial: nt}
}
