package checks

import (
	"testing"

	"pgregory.net/rapid"

	"verif/harness"
)

func TestC11(t *testing.T) {
	params := C11Params(thorough())
	checkFile(t, "C11", func(rt *rapid.T) *harness.Program {
		return harness.GenProgram(rt, params)
	}, RunC11)
}
