package checks

import (
	"verif/harness"
)

func init() {
	Runners["C12"] = queueRunner(RunC12)
	harness.Specs["C12"] = &harness.PropSpec{
		ID: "C12", Test: "TestC12", Kind: "queue", Level: "exploration",
		Quick: 900, Thorough: 1800,
		Rule: "generated queue programs on small bounded files (16-128 pages, page size 1024/4096, write buffer 0..8 pages): cycles of fill-until-a-writer-call-" +
			"fails / drain / ACK (all or part) / retry flush, mixed with steady produce-consume rounds; event model with the documented failure rules (a failing " +
			"Write consumed nothing, an event completed by Next stays buffered if its flush fails); oracles: writer errors are errors (never loss, reorder or panic), " +
			"reader and ACK never fail on the full file, content/FIFO as C05, after every step outside reader sections FileStats.DataAllocated <= header page + " +
			"pages of un-ACKed events + pages of the most recent event + 4, after a complete ACK a Flush of the buffered events succeeds; non-trivial = >=1 " +
			"fill-to-error followed by a successful later flush and traffic >= 3x the file capacity; distinct = distinct program hash",
		Assume: []string{
			"write buffer <= 8 pages and event sizes <= 3 pages so that the buffered events always fit into the emptied file",
			"the file size excess through the cleanup overflow area is recorded but not asserted (not part of the property statement)",
		},
	}
}

func C12Params(thorough bool) harness.QGenParams {
	p := harness.QGenParams{MaxBlocks: 10, Bounded: true, MinPages: 16, MaxPages: 128, FillCycles: true}
	if thorough {
		p.MaxBlocks = 24
	}
	return p
}

// RunC12 executes a queue program on a small bounded file.
func RunC12(p *harness.QProgram) Result {
	r, v := harness.NewQRunner(p, harness.QOpts{CheckSpace: true})
	if v != nil {
		return Result{V: v}
	}
	v = r.Run()
	c := r.Counters
	traffic := 0
	for _, ev := range r.Events {
		traffic += len(ev)
	}
	capBytes := int(p.Cfg.MaxPages) * int(p.Cfg.PageSize)
	if capBytes > 0 {
		c["traffic-x-capacity"] = traffic / capBytes
	}
	nt := has(c, "fill-to-error") && has(c, "flush-after-failure") && capBytes > 0 && traffic >= 3*capBytes
	return Result{V: v, Counters: c, Nontrivial: nt}
}
