package checks

import (
	"testing"

	"pgregory.net/rapid"

	"verif/harness"
)

func TestC12(t *testing.T) {
	params := C12Params(thorough())
	checkQueue(t, "C12", func(rt *rapid.T) *harness.QProgram { return harness.GenQFillProgram(rt, params) }, RunC12)
}
