package checks

import (
	"bytes"
	"encoding/json"
	"fmt"
	"runtime"
	"sync"
	"sync/atomic"
	"time"

	txfile "github.com/elastic/go-txfile"
	"github.com/elastic/go-txfile/pq"

	"verif/harness"
	"verif/simdisk"
)

// PCProgram is a generated producer/consumer scenario.
type PCProgram struct {
	Cfg harness.QConfig `json:"cfg"`
	// producer: per event size, chunk size and whether to Flush after it
	Sizes  []int `json:"sizes"`
	Chunks []int `json:"chunks"`
	Flush  []int `json:"flush"` // flush after event i if Flush[i%len] == 0
	// consumer: events per section, read buffer lengths, ack batch sizes
	Section []int `json:"section"`
	ReadLen []int `json:"readlen"`
	AckN    []int `json:"ackn"`
	Yields  []int `json:"yields"`
	// Skip[i%len] == 1: when event i has been read only partially, the consumer abandons the rest of
	// it (the following Reader.Next skips to the next event)
	Skip []int `json:"skip,omitempty"`
}

func (p *PCProgram) JSON() []byte {
	b, _ := json.Marshal(p)
	return b
}

func init() {
	Runners["C13"] = func(raw json.RawMessage) (Result, error) {
		var p PCProgram
		if err := json.Unmarshal(raw, &p); err != nil {
			return Result{}, err
		}
		return Guard(func() Result { return RunC13(&p) }), nil
	}
	harness.Specs["C13"] = &harness.PropSpec{
		ID: "C13", Test: "TestC13", Kind: "pc", Level: "exploration", Race: true,
		Quick: 1600, Thorough: 12000,
		Rule: "generated two-goroutine scenarios under the race detector: a producer (event sizes boundary biased, chunkings, flush points) and a consumer (reader " +
			"sections of generated length, partial reads continuing in the next section, ACK batches) run concurrently on one queue on the simulated disk, with " +
			"generated yield patterns; page size 1024/4096, small write buffers, bounded (retry on full) and unbounded files; oracle: the consumer receives exactly " +
			"the produced sequence in order and byte-identical, ACK never exceeds what it consumed, after every ACK Active() >= (Flushed-callback total read before the call) - ACKed,  both goroutines finish (watchdog 120 s), the race detector is " +
			"silent, afterwards Pending==0 and a fresh reader drains nothing; non-trivial = >=1 ACK transaction ran while the producer had not finished, >=1 " +
			"event crossed a page, >= 8 events; distinct = distinct scenario hash",
		Assume: []string{
			"the schedule is not owned by the harness (only perturbed by generated yields): atomicity defects are found probabilistically, data races deterministically once both sites execute",
			"the consumer always ends its read transaction before calling ACK (documented single-goroutine self-deadlock otherwise)",
		},
	}
}

// RunC13 executes a producer/consumer scenario.
func RunC13(p *PCProgram) Result {
	c := map[string]int{}
	fail := func(clause, format string, args ...interface{}) Result {
		return Result{V: &harness.Violation{Clause: clause, Item: -1, Msg: fmt.Sprintf(format, args...)}, Counters: c}
	}
	d := simdisk.New("pc")
	d.SetRecord(false)
	f, err := txfile.VerifOpen(d, txfile.Options{
		PageSize: p.Cfg.PageSize, MaxSize: uint64(p.Cfg.MaxPages) * uint64(p.Cfg.PageSize), InitMetaArea: p.Cfg.InitMeta,
	})
	if err != nil {
		return fail("q-open", "open failed: %v", err)
	}
	closeFile := func() {
		done := make(chan struct{})
		go func() {
			defer close(done)
			defer func() { recover() }()
			f.Close()
		}()
		select {
		case <-done:
		case <-time.After(2 * time.Second):
		}
	}
	del, err := pq.NewStandaloneDelegate(f)
	if err != nil {
		closeFile()
		return fail("q-open", "delegate: %v", err)
	}
	// Flushed callback total: the callback runs after the flush transaction has been committed,
	// so at any later instant at least that many events are in the file
	var flushedCB int64
	q, err := pq.New(del, pq.Settings{WriteBuffer: p.Cfg.WriteBuffer, Flushed: func(n uint) { atomic.AddInt64(&flushedCB, int64(n)) }})
	if err != nil {
		closeFile()
		return fail("q-open", "pq.New: %v", err)
	}
	w, err := q.Writer()
	if err != nil {
		closeFile()
		return fail("q-open", "Writer: %v", err)
	}
	rd := q.Reader()
	n := len(p.Sizes)
	bounded := p.Cfg.MaxPages > 0

	var (
		mu                   sync.Mutex
		firstErr             *harness.Violation
		stop                 = make(chan struct{})
		stopOnce             sync.Once
		wg                   sync.WaitGroup
		prodDone             = make(chan struct{})
		acksDuringProduction int
		acks                 int
		skips                int
	)
	report := func(clause, format string, args ...interface{}) {
		mu.Lock()
		if firstErr == nil {
			firstErr = &harness.Violation{Clause: clause, Item: -1, Msg: fmt.Sprintf(format, args...)}
		}
		mu.Unlock()
		stopOnce.Do(func() { close(stop) })
	}
	stopped := func() bool {
		select {
		case <-stop:
			return true
		default:
			return false
		}
	}
	yi := 0
	yield := func(k int) {
		if len(p.Yields) == 0 {
			runtime.Gosched()
			return
		}
		for i := 0; i < p.Yields[(k+yi)%len(p.Yields)]; i++ {
			runtime.Gosched()
		}
	}
	pick := func(l []int, i, def int) int {
		if len(l) == 0 {
			return def
		}
		return l[i%len(l)]
	}

	// producer
	wg.Add(1)
	go func() {
		defer wg.Done()
		defer close(prodDone)
		defer func() {
			if x := recover(); x != nil {
				report("panic", "producer paniced: %v", x)
			}
		}()
		retries := 0
		retry := func(what string, err error) bool {
			if !bounded {
				report("q-write-error", "%s failed on an unbounded file: %v", what, err)
				return false
			}
			retries++
			if retries > 2000000 {
				report("hang", "producer: %s keeps failing although the consumer ACKs: %v", what, err)
				return false
			}
			yield(retries)
			return !stopped()
		}
		for i := 0; i < n && !stopped(); i++ {
			size := p.Sizes[i]
			cs := pick(p.Chunks, i, size)
			if cs <= 0 {
				cs = size
			}
			for off := 0; off < size && !stopped(); {
				l := cs
				if off+l > size {
					l = size - off
				}
				buf := make([]byte, l)
				harness.EventFill(i, off, buf)
				if _, err := w.Write(buf); err != nil {
					if !retry("Write", err) {
						return
					}
					continue // a failing Write consumed nothing
				}
				off += l
				yield(i + off)
			}
			if err := w.Next(); err != nil {
				// the event is complete in the buffer; its flush failed
				if !retry("Next", err) {
					return
				}
			}
			if pick(p.Flush, i, 1) == 0 {
				for !stopped() {
					err := w.Flush()
					if err == nil {
						break
					}
					if !retry("Flush", err) {
						return
					}
				}
			}
		}
		for !stopped() {
			err := w.Flush()
			if err == nil {
				break
			}
			if !retry("final Flush", err) {
				return
			}
		}
	}()

	// consumer
	wg.Add(1)
	go func() {
		defer wg.Done()
		defer func() {
			if x := recover(); x != nil {
				report("panic", "consumer paniced: %v", x)
			}
		}()
		consumed, acked := 0, 0
		curEv, curOff := -1, 0
		sect := 0
		idle := 0
		for consumed < n && !stopped() {
			if err := rd.Begin(); err != nil {
				report("q-reader-begin", "Reader.Begin failed: %v", err)
				return
			}
			k := pick(p.Section, sect, 3)
			sect++
			got := 0
			for j := 0; j < k && consumed < n && !stopped(); j++ {
				if curEv < 0 {
					sz, err := rd.Next()
					if err != nil {
						rd.Done()
						report("q-reader-next", "Reader.Next failed (consumed %d): %v", consumed, err)
						return
					}
					if sz == 0 {
						break
					}
					if sz != p.Sizes[consumed] {
						rd.Done()
						report("q-size", "consumer: event #%d has size %d, produced size is %d", consumed, sz, p.Sizes[consumed])
						return
					}
					curEv, curOff = consumed, 0
				}
				size := p.Sizes[curEv]
				rl := pick(p.ReadLen, curEv+j, 1<<16)
				if rl <= 0 {
					rl = 1
				}
				buf := make([]byte, rl)
				nread, err := rd.Read(buf)
				if err != nil {
					rd.Done()
					report("q-reader-read", "Reader.Read failed in event #%d: %v", curEv, err)
					return
				}
				want := size - curOff
				if want > rl {
					want = rl
				}
				if nread != want {
					rd.Done()
					report("q-read-len", "consumer: Read of event #%d at offset %d returned %d bytes, expected %d", curEv, curOff, nread, want)
					return
				}
				exp := make([]byte, nread)
				harness.EventFill(curEv, curOff, exp)
				if !bytes.Equal(buf[:nread], exp) {
					rd.Done()
					report("q-content", "consumer: event #%d bytes [%d,%d) differ from what the producer wrote", curEv, curOff, curOff+nread)
					return
				}
				curOff += nread
				if curOff == size {
					consumed++
					curEv = -1
					got++
				} else if pick(p.Skip, curEv, 0) == 1 {
					// abandon the rest of the event: the next Reader.Next skips it
					consumed++
					curEv = -1
					got++
					mu.Lock()
					skips++
					mu.Unlock()
				}
				yield(j)
			}
			rd.Done()
			if got == 0 {
				idle++
				if idle > 4000000 {
					report("hang", "consumer: no progress (consumed %d of %d events)", consumed, n)
					return
				}
				yield(idle)
			} else {
				idle = 0
			}
			// ACK a batch of fully consumed events; if nothing could be read, ACK
			// everything consumed (on a bounded file the producer may be waiting for space)
			a := pick(p.AckN, sect, 2)
			if got == 0 {
				a = consumed - acked
			}
			if a > 0 && consumed > acked {
				if a > consumed-acked {
					a = consumed - acked
				}
				if err := q.ACK(uint(a)); err != nil {
					report("q-ack-error", "ACK(%d) failed (consumed %d, acked %d): %v", a, consumed, acked, err)
					return
				}
				acked += a
				// counters under concurrency: events only enter through flushes (whose total the
				// callback has reported) and only leave through this goroutine's ACKs
				f0 := atomic.LoadInt64(&flushedCB)
				if act, err := q.Active(); err != nil || int64(act) < f0-int64(acked) {
					report("q-counters-concurrent", "after ACK (acked %d in total) the Flushed callback had reported %d events, but Active()=%d err=%v: flushed events are missing from the queue", acked, f0, act, err)
					return
				}
				mu.Lock()
				acks++
				select {
				case <-prodDone:
				default:
					acksDuringProduction++
				}
				mu.Unlock()
			}
		}
		if !stopped() && consumed > acked {
			if err := q.ACK(uint(consumed - acked)); err != nil {
				report("q-ack-error", "final ACK(%d) failed: %v", consumed-acked, err)
			}
		}
	}()

	done := make(chan struct{})
	go func() { wg.Wait(); close(done) }()
	select {
	case <-done:
	case <-time.After(HangTimeout):
		stopOnce.Do(func() { close(stop) })
		return fail("hang", "producer and consumer did not finish within %v (deadlock)", HangTimeout)
	}
	if firstErr != nil {
		closeFile()
		return Result{V: firstErr, Counters: c}
	}
	// final state: everything consumed and ACKed
	if pend, err := q.Pending(); err != nil || pend != 0 {
		closeFile()
		return fail("q-counters", "after consuming and ACKing all %d events Pending=%d err=%v", n, pend, err)
	}
	rest, v := harness.DrainCopy(f)
	if v != nil {
		closeFile()
		return Result{V: v, Counters: c}
	}
	if len(rest) != 0 {
		closeFile()
		return fail("q-phantom", "after ACKing all %d events a fresh reader still drains %d events", n, len(rest))
	}
	if err := q.Close(); err != nil {
		closeFile()
		return fail("q-close", "Queue.Close failed: %v", err)
	}
	if err := f.Close(); err != nil {
		return fail("q-close", "File.Close failed: %v", err)
	}
	c["pc-run"]++
	c["acks"] = acks
	c["acks-during-production"] = acksDuringProduction
	c["partial-read-then-skip"] = skips
	payload := int(p.Cfg.PageSize) - 28
	cross := false
	for _, s := range p.Sizes {
		if s+4 > payload {
			cross = true
		}
	}
	if cross {
		c["event-spans-pages"]++
	}
	return Result{Counters: c, Nontrivial: acksDuringProduction > 0 && cross && n >= 8}
}
