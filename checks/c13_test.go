package checks

import (
	"testing"

	"pgregory.net/rapid"

	"verif/harness"
)

func genPC(rt *rapid.T, thorough bool) *PCProgram {
	p := &PCProgram{}
	p.Cfg.PageSize = rapid.SampledFrom([]uint32{1024, 1024, 4096}).Draw(rt, "ps")
	ps := int(p.Cfg.PageSize)
	payload := ps - 28
	p.Cfg.WriteBuffer = rapid.SampledFrom([]uint{0, uint(ps), uint(4 * ps)}).Draw(rt, "wbuf")
	if rapid.IntRange(0, 2).Draw(rt, "bounded") == 0 {
		// big enough that the buffered data always fits once everything consumed is ACKed:
		// the meta area can grow to 16-32 pages and never shrinks, events span up to 4 pages,
		// the write buffer up to 4 pages (a 24 page file with a 16 page meta area can not hold a
		// 3 page event at all: seen as a false "no progress" alarm)
		p.Cfg.MaxPages = uint(rapid.IntRange(96, 160).Draw(rt, "max"))
	}
	p.Cfg.InitMeta = rapid.SampledFrom([]uint32{0, 4}).Draw(rt, "meta")
	maxN := 40
	if thorough {
		maxN = 300
	}
	n := rapid.IntRange(4, maxN).Draw(rt, "n")
	for i := 0; i < n; i++ {
		var s int
		switch rapid.IntRange(0, 5).Draw(rt, "class") {
		case 0:
			s = rapid.IntRange(1, 16).Draw(rt, "tiny")
		case 1:
			s = payload - 4 + rapid.SampledFrom([]int{-1, 0, 1}).Draw(rt, "d")
		case 2:
			s = rapid.IntRange(payload, 3*payload).Draw(rt, "multi")
		default:
			s = rapid.IntRange(1, payload).Draw(rt, "size")
		}
		p.Sizes = append(p.Sizes, s)
	}
	p.Chunks = rapid.SliceOfN(rapid.SampledFrom([]int{0, 1, 7, 100, 500, 1000, 5000}), 1, 4).Draw(rt, "chunks")
	// at most 80 Write calls per event
	for i, cs := range p.Chunks {
		if cs > 0 && 3*payload/cs > 80 {
			p.Chunks[i] = 3*payload/80 + 1
		}
	}
	p.Flush = rapid.SliceOfN(rapid.IntRange(0, 3), 1, 5).Draw(rt, "flush")
	p.Section = rapid.SliceOfN(rapid.IntRange(1, 6), 1, 4).Draw(rt, "section")
	p.ReadLen = rapid.SliceOfN(rapid.SampledFrom([]int{1 << 16, 1 << 16, 100, 996, 1, 3000}), 1, 4).Draw(rt, "readlen")
	// a read length of 1 on big events is slow: cap the number of reads
	for i, rl := range p.ReadLen {
		if rl < 50 {
			p.ReadLen[i] = 50
		}
	}
	p.AckN = rapid.SliceOfN(rapid.IntRange(0, 5), 1, 4).Draw(rt, "ackn")
	p.Yields = rapid.SliceOfN(rapid.IntRange(0, 4), 1, 6).Draw(rt, "yields")
	if rapid.IntRange(0, 1).Draw(rt, "skipping") == 1 {
		p.Skip = rapid.SliceOfN(rapid.SampledFrom([]int{0, 0, 1}), 1, 5).Draw(rt, "skip")
	}
	return p
}

func TestC13(t *testing.T) {
	th := thorough()
	rec := harness.NewRecorder("C13", "pc")
	completed := false
	defer func() { rec.Flush(completed) }()
	FilterKnown = true
	rapid.Check(t, func(rt *rapid.T) {
		p := genPC(rt, th)
		noteCase("C13", "pc", p.JSON())
		res := Guard(func() Result { return RunC13(p) })
		rec.Case(p.JSON(), harness.HashBytes(p.JSON()), res.Counters, res.Nontrivial, res.V)
		abortOnHang(rec, res.V)
		if res.V != nil {
			rt.Fatalf("C13 violated: %v", res.V)
		}
	})
	completed = true
}
