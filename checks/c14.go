package checks

import (
	"verif/harness"
)

func init() {
	Runners["C14"] = fileRunner(RunC14)
	harness.Specs["C14"] = &harness.PropSpec{
		ID: "C14", Test: "TestC14", Kind: "file", Level: "exploration", FuzzTargets: []string{"FuzzC14"}, FuzzSeconds: 180,
		Quick: 8000, Thorough: 250000,
		Rule: "generated history H on (old max, prealloc; transactions may use the overflow area; a quarter of the cases ends H with 'file completely full, overflow transaction'), close, open with FlagUpdMaxSize and a generated new maximum (larger, smaller >= 64 KiB, equal, unbounded) x " +
			"prealloc, then lock-state probe + BeginReadonly + Begin (content verification and capacity probe), further history K, close, plain open, verification; " +
			"oracles: model equality across the resize, lock idle right after the open (no blocked Begin), header/allocator/OnOpen report the new limit, after growing " +
			"the allocatable pages grow by exactly the added pages (pages of the overflow area beyond the old limit count as used), opens with a max size but without the flag leave the stored limit alone,  after shrinking they do not grow and the file extent stays <= max(previous extent, new limit), the " +
			"limit persists over a plain reopen; non-trivial = resize with a non-empty overwrite mapping or with free regions beyond the new limit, followed by >=1 " +
			"committed transaction; distinct = distinct program hash",
		Assume: []string{
			"a blocked Begin is detected through the lock-state hook (pending flag / reserved lock) instead of a timeout",
			"the exact grow delta is only asserted if the data end marker was within the old limit",
		},
	}
}

func C14Params(thorough bool) harness.GenParams {
	p := harness.GenParams{MaxItems: 5, MaxOps: 8, MaxPages: 256, NoFill: false, Overflow: true, Reopen: true, LimitOpen: true}
	if thorough {
		p.MaxItems = 10
	}
	return p
}

// RunC14 executes a resize program.
func RunC14(p *harness.Program) Result {
	o := harness.RunOpts{CheckContent: true, CheckLockIdle: true, CheckResize: true, CheckOwnership: true, Drain: true}
	r, v := harness.NewRunner(p, o)
	if v != nil {
		return Result{V: v}
	}
	before := 0
	o.SkipItem = nil
	v = r.Run()
	c := r.Counters
	_ = before
	nt := has(c, "resize") && has(c, "resize-with-wal", "resize-free-beyond-limit") && c["commit-after-resize"] > 0
	return Result{V: v, Counters: c, Nontrivial: nt}
}
