package checks

import (
	"testing"

	"pgregory.net/rapid"

	"verif/harness"
)

func genC14(rt *rapid.T, params harness.GenParams) *harness.Program {
	prog := &harness.Program{Cfg: harness.GenConfig(rt, params)}
	ps := uint(prog.Cfg.PageSize)
	minPages := 65536 / ps
	h := rapid.SliceOfN(rapid.Custom(func(t *rapid.T) harness.Item { return harness.GenItem(t, params) }), 1, params.MaxItems).Draw(rt, "H")
	prog.Items = append(prog.Items, h...)
	// shape: the file is completely full and a transaction with the overflow area enabled has put
	// its metadata (overwrite pages, mapping, free list) beyond the old limit right before the resize
	overflowShape := prog.Cfg.MaxPages > 0 && rapid.IntRange(0, 3).Draw(rt, "overflowShape") == 0
	if overflowShape {
		prog.Items = append(prog.Items,
			harness.Item{Tx: &harness.Tx{Ops: []harness.Op{{K: harness.OpFill, A: 0}, {K: harness.OpWriteMany, A: 0, B: 0, C: 5}}, End: harness.EndCommit}},
			harness.Item{Tx: &harness.Tx{Overflow: true, WALLimit: uint(rapid.SampledFrom([]int{0, 0, 2}).Draw(rt, "owal")), Ops: []harness.Op{
				{K: harness.OpWriteMany, A: rapid.IntRange(0, 63).Draw(rt, "opick"), B: rapid.IntRange(1, 12).Draw(rt, "ocount"), C: rapid.IntRange(1, 1<<20).Draw(rt, "oseed")},
				{K: harness.OpFreeMany, A: rapid.IntRange(0, 63).Draw(rt, "fpick"), B: rapid.IntRange(0, 3).Draw(rt, "fcount"), C: 2},
			}, End: harness.EndCommit}})
	}
	nres := rapid.IntRange(1, 2).Draw(rt, "resizes")
	cur := prog.Cfg.MaxPages
	for i := 0; i < nres; i++ {
		var newMax uint
		switch rapid.IntRange(0, 5).Draw(rt, "dir") {
		case 0: // unbounded
			newMax = 0
		case 1, 2: // larger
			base := cur
			if base == 0 {
				base = minPages
			}
			newMax = base + uint(rapid.IntRange(1, 200).Draw(rt, "plus"))
			if overflowShape && rapid.IntRange(0, 1).Draw(rt, "smallplus") == 0 {
				newMax = base + uint(rapid.IntRange(1, 12).Draw(rt, "plus12")) // new limit inside / just behind the overflow area
			}
		case 3, 4: // smaller (>= 64 KiB)
			base := cur
			if base == 0 {
				base = minPages + 200
			}
			if base <= minPages {
				newMax = minPages
			} else {
				newMax = uint(rapid.IntRange(int(minPages), int(base)).Draw(rt, "smaller"))
			}
		default: // equal
			newMax = cur
			if newMax == 0 {
				newMax = minPages + 17
			}
		}
		prog.Items = append(prog.Items, harness.Item{Reopen: &harness.Reopen{Mode: 2, NewMax: newMax, Prealloc: rapid.IntRange(0, 2).Draw(rt, "prealloc") == 0}})
		cur = newMax
		k := rapid.SliceOfN(rapid.Custom(func(t *rapid.T) harness.Item { return harness.GenItem(t, params) }), 1, 3).Draw(rt, "K")
		prog.Items = append(prog.Items, k...)
	}
	prog.Items = append(prog.Items, harness.Item{Reopen: &harness.Reopen{Mode: 0}}, harness.Item{Tx: harness.GenTx(rt, params)})
	return prog
}

func TestC14(t *testing.T) {
	params := C14Params(thorough())
	checkFile(t, "C14", func(rt *rapid.T) *harness.Program { return genC14(rt, params) }, RunC14)
}
