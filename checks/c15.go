package checks

import (
	"encoding/json"

	"verif/harness"
)

func init() {
	fr, qr := fileRunner(RunC15), queueRunner(RunC15Queue)
	Runners["C15"] = func(raw json.RawMessage) (Result, error) {
		var probe struct {
			Steps []json.RawMessage `json:"steps"`
		}
		if json.Unmarshal(raw, &probe) == nil && probe.Steps != nil {
			return qr(raw)
		}
		return fr(raw)
	}
	harness.Specs["C15"] = &harness.PropSpec{
		ID: "C15", Test: "TestC15", Kind: "file", Level: "exploration",
		Quick: 6000, Thorough: 65000,
		Rule: "generated prefix history, then EVERY cell of the method x receiver-state matrix: Tx methods (Commit, Rollback, Close, Flush, " +
			"CheckpointWAL, Alloc, AllocN, Page, RootPage, Root, SetRoot, PageSize, Active/Readonly/Writable) and Page methods (Bytes, Load, SetBytes incl. " +
			"oversize, MarkDirty, Free, Flush, accessors) x {committed, rolled back, closed, failed commit} x {read-write, read-only}; write methods in an " +
			"active read-only tx; out-of-range ids; fresh/dirty/flushed/freed pages in an active write tx; queue cells (closed reader/writer/queue, reader " +
			"without Begin, ACK too many / on empty queue) run in the queue part; each call under recover(): no panic, documented error kind, committed state " +
			"(model) unchanged, running tx commits exactly its model state; non-trivial = matrix ran on a state with >=1 live written page (so page cells exist); " +
			"distinct = distinct prefix program hash",
		Assume: []string{
			"only error kinds that documentation or errors.go define are asserted; Tx.Close on a finished transaction is documented to return nil",
			"Page.Bytes on a page object freed in the running transaction is not asserted (undocumented)",
		},
	}
}

func C15Params(thorough bool) harness.GenParams {
	p := harness.GenParams{MaxItems: 5, MaxOps: 8, MaxPages: 96, Reopen: true, Overflow: true}
	if thorough {
		p.MaxItems, p.MaxPages = 10, 200
	}
	return p
}

// RunC15 executes prefix + misuse matrix.
func RunC15(p *harness.Program) Result {
	o := harness.RunOpts{CheckContent: true, CheckLockIdle: true, Drain: true}
	r, v := harness.NewRunner(p, o)
	if v != nil {
		return Result{V: v}
	}
	v = r.Run()
	c := r.Counters
	nt := c["misuse-matrix"] > 0 && c["misuse-cell"] >= 150
	return Result{V: v, Counters: c, Nontrivial: nt}
}

// RunC15Queue executes a queue program containing misuse steps.
func RunC15Queue(p *harness.QProgram) Result {
	r, v := harness.NewQRunner(p, harness.QOpts{CheckCounters: true})
	if v != nil {
		return Result{V: v}
	}
	v = r.Run()
	c := r.Counters
	return Result{V: v, Counters: c, Nontrivial: c["misuse-matrix"] > 0 && c["event"] > 0}
}
