package checks

import (
	"testing"

	"pgregory.net/rapid"

	"verif/harness"
)

func TestC15(t *testing.T) {
	params := C15Params(thorough())
	rec := harness.NewRecorder("C15", "file")
	completed := false
	defer func() { rec.Flush(completed) }()
	// queue part of the matrix (one quarter of the cases)
	qparams := C05Params(thorough())
	qparams.MaxBlocks = 10
	checkQueueRec(t, rec, "C15", func(rt *rapid.T) *harness.QProgram {
		p := harness.GenQProgram(rt, qparams)
		p.Steps = append(p.Steps, harness.QStep{K: harness.QMisuse})
		if rapid.IntRange(0, 2).Draw(rt, "more") == 0 {
			p.Steps = append(p.Steps, harness.QStep{K: harness.QWrite, A: 700}, harness.QStep{K: harness.QNext}, harness.QStep{K: harness.QFlush},
				harness.QStep{K: harness.QDrain, A: 1}, harness.QStep{K: harness.QMisuse}, harness.QStep{K: harness.QProbe})
		}
		return p
	}, RunC15Queue)
	checkFileRec(t, rec, "C15", func(rt *rapid.T) *harness.Program {
		p := harness.GenProgram(rt, params)
		// matrix after the prefix, and (sometimes) once more after further history
		p.Items = append(p.Items, harness.Item{Misuse: true})
		if rapid.IntRange(0, 2).Draw(rt, "again") == 0 {
			p.Items = append(p.Items, harness.Item{Tx: harness.GenTx(rt, params)}, harness.Item{Misuse: true})
		}
		return p
	}, RunC15)
	completed = true
}
