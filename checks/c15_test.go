package checks

import (
	"testing"

	"pgregory.net/rapid"

	"verif/harness"
)

func TestC15(t *testing.T) {
	params := C15Params(thorough())
	checkFile(t, "C15", func(rt *rapid.T) *harness.Program {
		p := harness.GenProgram(rt, params)
		// matrix after the prefix, and (sometimes) once more after further history
		p.Items = append(p.Items, harness.Item{Misuse: true})
		if rapid.IntRange(0, 2).Draw(rt, "again") == 0 {
			p.Items = append(p.Items, harness.Item{Tx: harness.GenTx(rt, params)}, harness.Item{Misuse: true})
		}
		return p
	}, RunC15)
}
