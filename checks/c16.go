package checks

import (
	"verif/harness"
)

func init() {
	Runners["C16"] = fileRunnerEnum(func(p *harness.Program) Result { return RunC16(p, false) })
	harness.Specs["C16"] = &harness.PropSpec{
		ID: "C16", Test: "TestC16", Kind: "file", Level: "fault_enumeration", FuzzTargets: []string{"FuzzC16"}, FuzzSeconds: 180,
		Quick: 480, Thorough: 1800,
		Rule: "evaluations = generated histories; after a chosen successful commit of each history (both header slots describe intact states there) the disk " +
			"image is copied and one header page is damaged: single bit flips of the 84 header bytes (all 672 per slot in thorough, sampled in quick), byte-prefix " +
			"tears (zero / other slot's bytes / garbage), zeroed page, random multi-byte damage; both headers damaged; txid pairs around 2^63/2^64 re-signed with the " +
			"harness's own FNV-32a; each copy is opened through the normal path: expectation from the harness's independent header validity predicate; recovered " +
			"txid, root, contents, allocator partition and (sampled) a suffix of transactions are checked; distinct_nontrivial = distinct histories with >= 1 image taken after a successful " +
			"commit and >= 100 damage cases; damage case counts are in coverage.classes_totals",
		Assume: []string{
			"images are taken right after a successful commit with the writer drained: only then is the older header's state guaranteed intact on disk",
			"a damaged header that is still valid under the independent predicate (checksum collision) is skipped and counted",
			"damage outside the 84 header bytes of a header page is irrelevant (unused bytes) and not enumerated",
		},
	}
}

func C16Params(thorough bool) harness.GenParams {
	p := harness.GenParams{MaxItems: 6, MaxOps: 8, Reopen: true, MaxPages: 96, Overflow: true, AbortHeavy: true}
	if thorough {
		p.MaxItems = 12
	}
	return p
}

func headerParams(thorough bool, seed uint64) harness.HeaderParams {
	if thorough {
		return harness.HeaderParams{AllBitFlips: true, AllTears: true, Random: 40, SuffixEvery: 200, Seed: seed}
	}
	return harness.HeaderParams{FlipSample: 120, TearSample: 12, Random: 6, SuffixEvery: 150, Seed: seed}
}

// RunC16 records a history, takes images after commits and checks header damage.
func RunC16(p *harness.Program, thorough bool) Result {
	states := map[uint64]*harness.MState{}
	type shot struct {
		img    []byte
		states map[uint64]*harness.MState
	}
	var shots []shot
	pickEvery := int(aux(p, 0)%3) + 1
	n := 0
	o := harness.RunOpts{CheckContent: true, TrackCommits: true, Drain: true, NoFinalClose: true}
	r, v := harness.NewRunner(p, o)
	if v != nil {
		return Result{V: v}
	}
	states[r.InitTxID] = harness.NewMState()
	states[r.InitTxID-1] = harness.NewMState()
	if aux(p, 1)%4 == 0 {
		// the freshly created file, before any commit (both headers were written by the creation)
		shots = append(shots, shot{img: r.Disk.Image(), states: map[uint64]*harness.MState{r.InitTxID: harness.NewMState(), r.InitTxID - 1: harness.NewMState()}})
		r.Counters["header-image-of-new-file"]++
	}
	seen := 0
	for i := range p.Items {
		if v = r.SafeRunItem(i, &p.Items[i]); v != nil {
			return Result{V: v, Counters: r.Counters}
		}
		committed := false
		for ; seen < len(r.Commits); seen++ {
			if rec := &r.Commits[seen]; rec.OK && rec.State != nil {
				states[rec.TxID] = rec.State
				for _, id := range rec.AltTxIDs {
					states[id] = rec.State
				}
				committed = true
			}
		}
		// Images are taken right after successful commits only ("for every committed history"): that is
		// the moment at which the older header is a complete fallback by design. The pages of the older
		// state that the newest commit freed may be re-used as soon as the next transaction flushes, and
		// a rollback truncates to the newest state only - so at later points the older header is not a
		// usable fallback any more (a limitation of the format, not asserted; see DESIGN.md 0.4).
		if !committed {
			continue
		}
		n++
		if n%pickEvery != 0 || r.F == nil {
			continue
		}
		cp := map[uint64]*harness.MState{}
		for k, v := range states {
			cp[k] = v
		}
		shots = append(shots, shot{img: r.Disk.Image(), states: cp})
		if len(shots) > 3 {
			shots = append(shots[:1], shots[2:]...) // keep the first (possibly the new file) and the latest two
		}
	}
	if v = r.Finish(); v != nil {
		return Result{V: v, Counters: r.Counters}
	}
	c := r.Counters
	var st harness.HeaderStats
	hp := headerParams(thorough || aux(p, 2) == 1, aux(p, 1))
	for _, s := range shots {
		if v = harness.CheckDamagedHeaders(s.img, p.Cfg, s.states, hp, &st); v != nil {
			break
		}
	}
	c["header-images"] = st.Images
	c["damage-cases"] = st.Cases
	c["damage-bitflips"] = st.BitFlips
	c["damage-tears"] = st.Tears
	c["damage-random"] = st.Random
	c["damage-both"] = st.Both
	c["damage-txid-wrap"] = st.Wrap
	c["open-rejected"] = st.Rejected
	c["collisions-skipped"] = st.Collisions
	c["duplicate-header"] = st.Duplicates
	c["suffix-run"] = st.Suffixes
	c["pagesize-field-hit"] = st.PageSizeHit
	return Result{V: v, Counters: c, Nontrivial: st.Images > 0 && st.Cases >= 100}
}
