package checks

import (
	"testing"

	"pgregory.net/rapid"

	"verif/harness"
)

func TestC16(t *testing.T) {
	th := thorough()
	params := C16Params(th)
	checkFile(t, "C16", func(rt *rapid.T) *harness.Program {
		p := harness.GenProgram(rt, params)
		thr := uint64(0)
		if th {
			thr = 1
		}
		p.Aux = []uint64{uint64(rapid.IntRange(0, 2).Draw(rt, "pick")), rapid.Uint64().Draw(rt, "seed"), thr}
		return p
	}, func(p *harness.Program) Result { return RunC16(p, th) })
}
