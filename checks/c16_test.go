package checks

import (
	"testing"

	"pgregory.net/rapid"

	"verif/harness"
)

func TestC16(t *testing.T) {
	th := thorough()
	params := C16Params(th)
	checkFile(t, "C16", func(rt *rapid.T) *harness.Program {
		p := harness.GenProgram(rt, params)
		if p.Cfg.MaxPages > 0 && rapid.IntRange(0, 3).Draw(rt, "overflowRelease") == 0 {
			// the last commits before the damage: a full file, metadata in the overflow area, then commits
			// that release overflow pages again (the file shrinks; the older header must stay usable)
			otx := func(ops ...harness.Op) harness.Item {
				return harness.Item{Tx: &harness.Tx{Overflow: true, Ops: ops, End: harness.EndCommit}}
			}
			p.Items = append(p.Items,
				harness.Item{Tx: &harness.Tx{Ops: []harness.Op{{K: harness.OpAlloc, A: 6}, {K: harness.OpWrite, A: 0, C: 41}, {K: harness.OpWrite, A: 1, C: 42}, {K: harness.OpWrite, A: 2, C: 43}, {K: harness.OpWrite, A: 3, C: 44}, {K: harness.OpWrite, A: 4, C: 45}, {K: harness.OpFill, A: 0}}, End: harness.EndCommit}},
				otx(harness.Op{K: harness.OpWriteMany, A: rapid.IntRange(0, 30).Draw(rt, "op"), B: rapid.IntRange(2, 8).Draw(rt, "oc"), C: 46}),
				otx(harness.Op{K: harness.OpFreeMany, A: rapid.IntRange(0, 30).Draw(rt, "fp"), B: rapid.IntRange(1, 12).Draw(rt, "fc"), C: 1}))
			if rapid.IntRange(0, 1).Draw(rt, "more") == 1 {
				p.Items = append(p.Items, otx(harness.Op{K: harness.OpCheckpoint}, harness.Op{K: harness.OpFreeMany, A: 0, B: rapid.IntRange(1, 6).Draw(rt, "fc2"), C: 2}))
			}
		}
		thr := uint64(0)
		if th {
			thr = 1
		}
		p.Aux = []uint64{uint64(rapid.IntRange(0, 2).Draw(rt, "pick")), rapid.Uint64().Draw(rt, "seed"), thr}
		return p
	}, func(p *harness.Program) Result { return RunC16(p, th) })
}
