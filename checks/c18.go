package checks

import (
	"encoding/json"
	"fmt"
	"os"
	"path/filepath"
	"time"

	txfile "github.com/elastic/go-txfile"
	"github.com/elastic/go-txfile/txerr"

	"verif/harness"
	"verif/simdisk"
)

// LockSeq is a generated sequence of open/close steps on one path.
type LockSeq struct {
	PageSize uint32   `json:"ps"`
	MaxPages uint     `json:"max,omitempty"`
	Steps    []string `json:"steps"`
}

func (p *LockSeq) JSON() []byte {
	b, _ := json.Marshal(p)
	return b
}

// step kinds of C18
const (
	LOpen        = "open"
	LOpenRO      = "open-readonly" // like open, with Options.Readonly
	LOpenWait    = "openwait"
	LClose       = "close"
	LTx          = "tx"
	LBadOptions  = "bad-options"
	LBadResize   = "bad-resize"
	LBadCreate   = "bad-create" // creation of a NEW file fails (options that pass validation but can not be used)
	LDamageBoth  = "damage-both-headers"
	LShortFile   = "short-file"
	LEmptyHeader = "zero-headers"
)

func init() {
	Runners["C18"] = func(raw json.RawMessage) (Result, error) {
		var p LockSeq
		if err := json.Unmarshal(raw, &p); err != nil {
			return Result{}, err
		}
		return Guard(func() Result { return RunC18(&p) }), nil
	}
	harness.Specs["C18"] = &harness.PropSpec{
		ID: "C18", Test: "TestC18", Kind: "lockseq", Level: "exploration", RealFS: true,
		Quick: 2000, Thorough: 60000,
		Rule: "generated sequences of steps on one path in a fresh temporary directory of the real file system: open, second open while open, open with " +
			"FlagWaitLock in a goroutine, write transaction, close, failing opens (invalid options, invalid max-size update, both headers damaged, headers zeroed, " +
			"file shorter than a header) and reopen; oracle: while a File is open a second Open fails with kind LockFailed and leaves the first usable; a waiting " +
			"Open has not returned before the first Close and returns successfully after it; after Close and after every failed Open the next Open succeeds at " +
			"once and sees the last committed contents; additionally, on the simulated disk, creation and Open with each of their I/O calls failing once must " +
			"return an error and release the lock, and a second Open while open must fail with LockFailed; non-trivial = sequence with >=1 rejected second open, >=1 failed open followed by a successful one, and " +
			">=1 waiting open; distinct = distinct sequence hash",
		Assume: []string{
			"runs on the OS file system with flock (the only property not checked on the simulated disk); I/O failure during initialisation is covered on the simulated disk by the lock-flag checks of C08/C16",
			"the 'has not returned yet' check is one-sided (a slow goroutine can not cause a false alarm)",
		},
	}
}

// RunC18 executes a lock sequence on the real file system.
func RunC18(p *LockSeq) Result {
	c := map[string]int{}
	fail := func(clause, format string, args ...interface{}) Result {
		return Result{V: &harness.Violation{Clause: clause, Item: -1, Msg: fmt.Sprintf(format, args...)}, Counters: c}
	}
	dir, err := os.MkdirTemp("", "verif-c18-")
	if err != nil {
		return fail("harness", "tempdir: %v", err)
	}
	defer os.RemoveAll(dir)
	path := filepath.Join(dir, "file.dat")
	opts := txfile.Options{PageSize: p.PageSize, MaxSize: uint64(p.MaxPages) * uint64(p.PageSize)}

	var f *txfile.File
	var fRO bool    // the open handle was opened with Options.Readonly
	var good []byte // file content when it was last closed cleanly
	counter := byte(0)
	var lastWritten []byte
	var lastID txfile.PageID
	defer func() {
		if f != nil {
			f.Close()
		}
	}()

	verify := func(file *txfile.File) *Result {
		if lastWritten == nil {
			return nil
		}
		tx, err := file.BeginReadonly()
		if err != nil {
			r := fail("begin", "BeginReadonly failed: %v", err)
			return &r
		}
		defer tx.Close()
		pg, err := tx.Page(lastID)
		if err == nil {
			var b []byte
			b, err = pg.Bytes()
			if err == nil && string(b) != string(lastWritten) {
				r := fail("content-mismatch", "page %d does not hold the last committed contents after reopen", lastID)
				return &r
			}
		}
		if err != nil {
			r := fail("content-access", "reading page %d failed: %v", lastID, err)
			return &r
		}
		return nil
	}
	doTx := func(file *txfile.File) *Result {
		tx, err := file.Begin()
		if err != nil {
			r := fail("begin", "Begin failed: %v", err)
			return &r
		}
		defer tx.Close()
		var pg *txfile.Page
		if lastID != 0 {
			pg, err = tx.Page(lastID)
		} else {
			pg, err = tx.Alloc()
		}
		if err != nil {
			r := fail("tx", "page access failed: %v", err)
			return &r
		}
		counter++
		buf := make([]byte, p.PageSize)
		for i := range buf {
			buf[i] = counter
		}
		if err := pg.SetBytes(buf); err != nil {
			r := fail("tx", "SetBytes failed: %v", err)
			return &r
		}
		if err := tx.Commit(); err != nil {
			r := fail("tx", "Commit failed: %v", err)
			return &r
		}
		lastID, lastWritten = pg.ID(), buf
		return nil
	}
	mustOpen := func(why string, o txfile.Options) *Result {
		start := time.Now()
		nf, err := txfile.Open(path, 0o600, o)
		if err != nil {
			r := fail("open-after-release", "%s: Open failed: %v", why, err)
			return &r
		}
		if d := time.Since(start); d > 20*time.Second {
			nf.Close()
			r := fail("open-after-release", "%s: Open took %v", why, d)
			return &r
		}
		f, fRO = nf, o.Readonly
		return verify(f)
	}
	closeGood := func() *Result {
		if err := f.Close(); err != nil {
			r := fail("close", "Close failed: %v", err)
			return &r
		}
		f = nil
		b, err := os.ReadFile(path)
		if err == nil {
			good = b
		}
		return nil
	}

	use := func(file *txfile.File) *Result {
		if fRO {
			return verify(file) // no write transaction on a handle that was opened read-only
		}
		return doTx(file)
	}
	for i, st := range p.Steps {
		switch st {
		case LOpen, LOpenRO:
			oo := opts
			if st == LOpenRO {
				oo.Readonly = true
			}
			if f == nil {
				if r := mustOpen(fmt.Sprintf("step %d (path not open, readonly=%v)", i, oo.Readonly), oo); r != nil {
					return *r
				}
				c["open"]++
			} else {
				second, err := txfile.Open(path, 0o600, oo)
				if err == nil {
					second.Close()
					return fail("lock-not-exclusive", "step %d: second Open (readonly=%v) of a file that is open (readonly=%v) succeeded", i, oo.Readonly, fRO)
				}
				if !txerr.Is(txfile.LockFailed, err) {
					return fail("lock-kind", "step %d: second Open failed with %v, expected a lock error (LockFailed)", i, err)
				}
				c["second-open-rejected"]++
				if oo.Readonly && fRO {
					c["second-readonly-open-of-readonly-file-rejected"]++
				}
				if fRO {
					if r := verify(f); r != nil {
						r.V.Msg = "first (readonly) File after a rejected second Open: " + r.V.Msg
						return *r
					}
					continue
				}
				if r := doTx(f); r != nil {
					r.V.Msg = "first File after a rejected second Open: " + r.V.Msg
					return *r
				}
			}
		case LOpenWait:
			wo := opts
			wo.Flags |= txfile.FlagWaitLock
			if f == nil {
				if r := mustOpen(fmt.Sprintf("step %d (wait flag, path not open)", i), wo); r != nil {
					return *r
				}
				c["open"]++
				continue
			}
			type res struct {
				f   *txfile.File
				err error
			}
			ch := make(chan res, 1)
			go func() {
				nf, err := txfile.Open(path, 0o600, wo)
				ch <- res{nf, err}
			}()
			// one-sided: it must not have succeeded while the first is open
			time.Sleep(2 * time.Millisecond)
			select {
			case r := <-ch:
				if r.err == nil {
					r.f.Close()
					return fail("lock-not-exclusive", "step %d: Open with the wait flag returned successfully while the file was still open", i)
				}
				return fail("lock-wait", "step %d: Open with the wait flag failed instead of waiting: %v", i, r.err)
			default:
			}
			if r := use(f); r != nil {
				return *r
			}
			if r := closeGood(); r != nil {
				return *r
			}
			select {
			case r := <-ch:
				if r.err != nil {
					return fail("lock-wait", "step %d: waiting Open failed after the first File was closed: %v", i, r.err)
				}
				f, fRO = r.f, false
				if rr := verify(f); rr != nil {
					return *rr
				}
				c["waiting-open"]++
			case <-time.After(HangTimeout):
				return fail("hang", "step %d: waiting Open did not return after the first File was closed", i)
			}
		case LClose:
			if f != nil {
				if r := closeGood(); r != nil {
					return *r
				}
				c["close"]++
			}
		case LTx:
			if f != nil {
				if r := use(f); r != nil {
					return *r
				}
				c["tx"]++
			}
		case LBadOptions, LBadResize:
			bo := opts
			if st == LBadOptions {
				bo.PageSize = 3000 // not a power of two
			} else {
				bo.Flags |= txfile.FlagUpdMaxSize
				bo.MaxSize = 4096 // below the minimum file size
			}
			bf, err := txfile.Open(path, 0o600, bo)
			if err == nil {
				bf.Close()
				return fail("open-accepted", "step %d: Open with invalid options (%s) succeeded", i, st)
			}
			c["failed-open"]++
			if f == nil {
				if r := mustOpen(fmt.Sprintf("step %d (after an Open that failed for %s)", i, st), opts); r != nil {
					return *r
				}
				c["open-after-failed-open"]++
			}
		case LBadCreate:
			// a fresh path: the failing Open is a failing *creation*; afterwards the path must not be locked
			fresh := filepath.Join(dir, fmt.Sprintf("fresh-%d.dat", i))
			bo := txfile.Options{PageSize: p.PageSize, MaxSize: 4096} // too small for any file, but valid as an option
			if i%2 == 1 {
				bo = txfile.Options{PageSize: p.PageSize, MaxSize: uint64(p.PageSize) * 3, Prealloc: true}
			}
			bf, err := txfile.Open(fresh, 0o600, bo)
			if err == nil {
				bf.Close()
				c["bad-create-accepted"]++
				continue
			}
			c["failed-open"]++
			c["failed-create"]++
			done := make(chan error, 1)
			go func() {
				nf, err := txfile.Open(fresh, 0o600, txfile.Options{PageSize: p.PageSize, MaxSize: opts.MaxSize})
				if err == nil {
					nf.Close()
				}
				done <- err
			}()
			select {
			case err := <-done:
				if err != nil && txerr.Is(txfile.LockFailed, err) {
					return fail("open-fault-lock", "step %d: creating a new file failed (%v options); the next Open of that path failed with a lock error: %v", i, bo, err)
				}
				if err != nil {
					// "after any Open that failed for whatever reason the path can be opened again": the failed
					// creation must not leave something behind that makes every later Open of the path fail
					return fail("open-after-failed-create", "step %d: creating a new file failed (MaxSize %d, Prealloc %v); the next Open of that path with usable options fails too: %v", i, bo.MaxSize, bo.Prealloc, err)
				}
				c["open-after-failed-create"]++
			case <-time.After(HangTimeout):
				return fail("hang", "step %d: Open after a failed creation blocks", i)
			}
		case LDamageBoth, LShortFile, LEmptyHeader:
			if f != nil || good == nil {
				continue
			}
			bad := append([]byte(nil), good...)
			switch st {
			case LDamageBoth:
				bad[4] ^= 0xff
				bad[int(p.PageSize)+9] ^= 0x55
			case LEmptyHeader:
				for j := 0; j < 2*int(p.PageSize) && j < len(bad); j++ {
					bad[j] = 0
				}
			default:
				bad = bad[:40]
			}
			if err := os.WriteFile(path, bad, 0o600); err != nil {
				return fail("harness", "write: %v", err)
			}
			bf, err := txfile.Open(path, 0o600, opts)
			if err == nil {
				bf.Close()
				return fail("open-accepted", "step %d: Open of a file with %s succeeded", i, st)
			}
			c["failed-open"]++
			c["failed-open-"+st]++
			// the path must be lockable again at once: restore the contents and open
			if err := os.WriteFile(path, good, 0o600); err != nil {
				return fail("harness", "write: %v", err)
			}
			if r := mustOpen(fmt.Sprintf("step %d (after an Open that failed for %s)", i, st), opts); r != nil {
				return *r
			}
			c["open-after-failed-open"]++
		}
	}
	if f != nil {
		if r := closeGood(); r != nil {
			return *r
		}
	}
	// finally the path can be opened once more
	if r := mustOpen("final open", opts); r != nil {
		return *r
	}
	if r := closeGood(); r != nil {
		return *r
	}
	// injected I/O failure during initialisation (simulated disk: the lock flag of the
	// disk plays the role of the path lock)
	if v := simOpenFaults(p, c); v != nil {
		return Result{V: v, Counters: c}
	}
	nt := c["second-open-rejected"] > 0 && c["open-after-failed-open"] > 0 && c["waiting-open"] > 0
	return Result{Counters: c, Nontrivial: nt}
}

// simOpenFaults: Open of a new and of an existing file with each of its I/O
// calls failing once must return an error and release the lock; a second Open
// while the file is open must fail with a lock error.
func simOpenFaults(p *LockSeq, c map[string]int) (v *harness.Violation) {
	defer func() {
		if x := recover(); x != nil {
			v = &harness.Violation{Clause: "open-fault-panic", Item: -1, Msg: fmt.Sprintf("Open paniced under an injected I/O failure: %v", x)}
		}
	}()
	opts := txfile.Options{PageSize: p.PageSize, MaxSize: uint64(p.MaxPages) * uint64(p.PageSize)}
	// creation with failing write / sync
	for _, k := range []simdisk.CallKind{simdisk.CallWrite, simdisk.CallSync, simdisk.CallSize, simdisk.CallMMap} {
		d := simdisk.New("c18-create")
		d.Arm(&simdisk.Fault{Kind: k, Ordinal: 0, Burst: 1})
		f, err := txfile.VerifOpen(d, opts)
		c["sim-failed-open"]++
		if err == nil {
			f.Close()
			return &harness.Violation{Clause: "open-accepted", Item: -1, Msg: fmt.Sprintf("creating a file with the first %s call failing succeeded", k)}
		}
		if d.Locked() {
			return &harness.Violation{Clause: "open-fault-lock", Item: -1, Msg: fmt.Sprintf("failed creation (%s call failing) left the file locked", k)}
		}
		d.Arm(nil)
		f, err = txfile.VerifOpen(d, opts)
		if err != nil {
			return &harness.Violation{Clause: "open-after-failed-create", Item: -1, Msg: fmt.Sprintf("creating the file failed (%s call failing); the next Open, without failures, fails too: %v", k, err)}
		}
		f.Close()
		c["sim-open-after-failed-create"]++
	}
	// existing file
	d := simdisk.New("c18-existing")
	f, err := txfile.VerifOpen(d, opts)
	if err != nil {
		return &harness.Violation{Clause: "open-after-release", Item: -1, Msg: fmt.Sprintf("creating the file failed: %v", err)}
	}
	if _, err := txfile.VerifOpen(d, opts); err == nil || !txerr.Is(txfile.LockFailed, err) {
		return &harness.Violation{Clause: "lock-not-exclusive", Item: -1, Msg: fmt.Sprintf("second Open on the simulated disk: err=%v, expected LockFailed", err)}
	}
	tx, err := f.Begin()
	if err == nil {
		if pg, e := tx.Alloc(); e == nil {
			pg.SetBytes(make([]byte, p.PageSize))
		}
		err = tx.Commit()
	}
	if err != nil {
		return &harness.Violation{Clause: "tx", Item: -1, Msg: fmt.Sprintf("transaction failed: %v", err)}
	}
	f.Close()
	d.Arm(nil)
	f, err = txfile.VerifOpen(d, txfile.Options{})
	if err != nil {
		return &harness.Violation{Clause: "open-after-release", Item: -1, Msg: fmt.Sprintf("reopen failed: %v", err)}
	}
	counts := d.Counts()
	// Close whose munmap reports an error: whatever Close returns, the lock is released
	d.Arm(&simdisk.Fault{Kind: simdisk.CallMUnmap, Ordinal: 0, Burst: 1})
	f.Close()
	c["sim-close-with-failing-munmap"]++
	if d.Locked() {
		return &harness.Violation{Clause: "close-fault-lock", Item: -1, Msg: "File.Close with a failing munmap left the file locked"}
	}
	d.Arm(nil)
	if f, err = txfile.VerifOpen(d, txfile.Options{}); err != nil {
		return &harness.Violation{Clause: "open-after-release", Item: -1, Msg: fmt.Sprintf("after a Close whose munmap failed the next Open failed: %v", err)}
	}
	f.Close()
	for _, k := range []simdisk.CallKind{simdisk.CallSize, simdisk.CallRead, simdisk.CallMMap} {
		for ord := 0; ord < counts[k]; ord++ {
			d.Arm(&simdisk.Fault{Kind: k, Ordinal: ord, Burst: 1})
			f, err := txfile.VerifOpen(d, txfile.Options{})
			c["sim-failed-open"]++
			if err == nil {
				f.Close()
				continue
			}
			if d.Locked() {
				return &harness.Violation{Clause: "open-fault-lock", Item: -1, Msg: fmt.Sprintf("failed Open (%s call #%d failing) left the file locked", k, ord)}
			}
			d.Arm(nil)
			f, err = txfile.VerifOpen(d, txfile.Options{})
			if err != nil {
				return &harness.Violation{Clause: "open-after-release", Item: -1, Msg: fmt.Sprintf("after a failed Open (%s call #%d failing) the next Open failed: %v", k, ord, err)}
			}
			f.Close()
		}
	}
	return nil
}
