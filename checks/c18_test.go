package checks

import (
	"testing"

	"pgregory.net/rapid"

	"verif/harness"
)

func TestC18(t *testing.T) {
	rec := harness.NewRecorder("C18", "lockseq")
	completed := false
	defer func() { rec.Flush(completed) }()
	FilterKnown = true
	kinds := []string{LOpen, LOpen, LOpen, LOpenRO, LOpenRO, LOpenWait, LOpenWait, LClose, LClose, LTx, LBadOptions, LBadResize, LBadCreate, LDamageBoth, LShortFile, LEmptyHeader}
	rapid.Check(t, func(rt *rapid.T) {
		p := &LockSeq{PageSize: rapid.SampledFrom([]uint32{1024, 4096}).Draw(rt, "ps")}
		if rapid.IntRange(0, 1).Draw(rt, "bounded") == 1 {
			p.MaxPages = uint(65536/p.PageSize) + uint(rapid.IntRange(0, 64).Draw(rt, "extra"))
		}
		p.Steps = append([]string{LOpen, LTx}, rapid.SliceOfN(rapid.SampledFrom(kinds), 4, 24).Draw(rt, "steps")...)
		noteCase("C18", "lockseq", p.JSON())
		res := Guard(func() Result { return RunC18(p) })
		rec.Case(p.JSON(), harness.HashBytes(p.JSON()), res.Counters, res.Nontrivial, res.V)
		abortOnHang(rec, res.V)
		if res.V != nil {
			rt.Fatalf("C18 violated: %v", res.V)
		}
	})
	completed = true
}
