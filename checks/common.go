// Package checks contains one executable check per property. The run
// functions here are pure functions of (program, source tree); the tests in
// this package drive them with generated programs.
package checks

import (
	"encoding/json"
	"fmt"

	"verif/harness"
)

// Result of executing one case.
type Result struct {
	V          *harness.Violation
	Counters   map[string]int
	Nontrivial bool
}

// RunFunc executes a serialized case of one property.
type RunFunc func(raw json.RawMessage) (Result, error)

// Runners maps property ids to the replay entry points.
var Runners = map[string]RunFunc{}

func fileRunner(fn func(p *harness.Program) Result) RunFunc {
	return func(raw json.RawMessage) (Result, error) {
		var p harness.Program
		if err := json.Unmarshal(raw, &p); err != nil {
			return Result{}, fmt.Errorf("bad program: %v", err)
		}
		return fn(&p), nil
	}
}

func has(c map[string]int, names ...string) bool {
	for _, n := range names {
		if c[n] > 0 {
			return true
		}
	}
	return false
}

func aux(p *harness.Program, i int) uint64 {
	if i < len(p.Aux) {
		return p.Aux[i]
	}
	return 0
}
