// Package checks contains one executable check per property. The run
// functions here are pure functions of (program, source tree); the tests in
// this package drive them with generated programs.
package checks

import (
	"encoding/json"
	"fmt"
	"os"
	"time"

	"verif/harness"
)

// Result of executing one case.
type Result struct {
	V          *harness.Violation
	Counters   map[string]int
	Nontrivial bool
}

// RunFunc executes a serialized case of one property.
type RunFunc func(raw json.RawMessage) (Result, error)

// Runners maps property ids to the replay entry points.
var Runners = map[string]RunFunc{}

func fileRunner(fn func(p *harness.Program) Result) RunFunc {
	return func(raw json.RawMessage) (Result, error) {
		var p harness.Program
		if err := json.Unmarshal(raw, &p); err != nil {
			return Result{}, fmt.Errorf("bad program: %v", err)
		}
		return Guard(func() Result { return fn(&p) }), nil
	}
}

// fileRunnerEnum is fileRunner for enumeration-heavy properties.
func fileRunnerEnum(fn func(p *harness.Program) Result) RunFunc {
	return func(raw json.RawMessage) (Result, error) {
		var p harness.Program
		if err := json.Unmarshal(raw, &p); err != nil {
			return Result{}, fmt.Errorf("bad program: %v", err)
		}
		return GuardEnum(func() Result { return fn(&p) }), nil
	}
}

// enumProps lists the properties whose cases enumerate images / fault plans.
var enumProps = map[string]bool{"C01": true, "C06": true, "C08": true, "C16": true}

func guardOf(prop string) func(func() Result) Result {
	if enumProps[prop] {
		return GuardEnum
	}
	return Guard
}

// HangTimeout bounds the execution of a single case. Sequential cases finish
// in milliseconds; the bound is generous so that machine load cannot trip it.
var HangTimeout = 90 * time.Second

// EnumTimeout bounds cases that enumerate crash images / fault plans / header
// damage after executing their history (minutes of legitimate work in the
// thorough tier); such a case is never reported as a hang by time alone.
var EnumTimeout = 60 * time.Minute

// Guard runs a case under a watchdog: a case that does not return is reported
// as a "hang" violation (the stuck goroutine is abandoned).
func Guard(fn func() Result) Result { return guardFor(HangTimeout, fn) }

// GuardEnum is Guard for enumeration-heavy cases.
func GuardEnum(fn func() Result) Result { return guardFor(EnumTimeout, fn) }

func guardFor(timeout time.Duration, fn func() Result) Result {
	done := make(chan Result, 1)
	go func() { done <- fn() }()
	select {
	case r := <-done:
		return r
	case <-time.After(timeout):
		return Result{V: &harness.Violation{Clause: "hang", Item: -1,
			Msg: fmt.Sprintf("case did not finish within %v (deadlock or blocked operation)", timeout)}}
	}
}

func has(c map[string]int, names ...string) bool {
	for _, n := range names {
		if c[n] > 0 {
			return true
		}
	}
	return false
}

func aux(p *harness.Program, i int) uint64 {
	if i < len(p.Aux) {
		return p.Aux[i]
	}
	return 0
}

var curCasePath = os.Getenv("VERIF_CURCASE")

// noteCase records the case about to be executed, so that the driver can
// attribute a process-level failure (race detector abort, crash) to it.
func noteCase(prop, kind string, prog []byte) {
	if curCasePath == "" {
		return
	}
	rp := harness.Replay{Property: prop, Kind: kind, Program: json.RawMessage(prog)}
	if b, err := json.Marshal(&rp); err == nil {
		_ = os.WriteFile(curCasePath, b, 0o644)
	}
}

// abortOnHang ends the test process right after a hang has been recorded: the
// abandoned goroutine may spin forever, and shrinking a hang costs a timeout
// per attempt.
func abortOnHang(rec *harness.Recorder, v *harness.Violation) {
	if v != nil && v.Clause == "hang" {
		rec.Flush(false)
		fmt.Fprintln(os.Stderr, "hang recorded, ending the process:", v.Msg)
		os.Exit(1)
	}
}
