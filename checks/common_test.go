package checks

import (
	"encoding/json"
	"fmt"
	"os"
	"path/filepath"
	"sort"
	"testing"

	"pgregory.net/rapid"

	"verif/harness"
)

func thorough() bool { return os.Getenv("VERIF_TIER") == "thorough" }

// checkFile is the common driver for properties over generated file programs.
func checkFile(t *testing.T, prop string, gen func(rt *rapid.T) *harness.Program, run func(p *harness.Program) Result) {
	rec := harness.NewRecorder(prop, "file")
	completed := false
	defer func() { rec.Flush(completed) }()
	checkFileRec(t, rec, prop, gen, run)
	completed = true
}

func checkFileRec(t *testing.T, rec *harness.Recorder, prop string, gen func(rt *rapid.T) *harness.Program, run func(p *harness.Program) Result) {
	FilterKnown = true
	rec.SetKind("file")
	rapid.Check(t, func(rt *rapid.T) {
		p := gen(rt)
		noteCase(prop, "file", p.JSON())
		res := guardOf(prop)(func() Result { return run(p) })
		if res.V != nil {
			if id := matchKnown(prop, res.V); id != "" {
				rec.Exclude("matched:" + id)
				rec.Case(p.JSON(), p.Hash(), res.Counters, false, nil)
				return
			}
		}
		rec.Case(p.JSON(), p.Hash(), res.Counters, res.Nontrivial, res.V)
		abortOnHang(rec, res.V)
		if res.V != nil {
			rt.Fatalf("%s violated: %v", prop, res.V)
		}
	})
}

// TestReplay executes the case stored in the file named by VERIF_REPLAY.
func TestReplay(t *testing.T) {
	path := os.Getenv("VERIF_REPLAY")
	if path == "" {
		t.Skip("VERIF_REPLAY not set")
	}
	rp, err := harness.LoadReplay(path)
	if err != nil {
		t.Fatalf("load: %v", err)
	}
	run := Runners[rp.Property]
	if run == nil {
		t.Fatalf("no runner for property %q", rp.Property)
	}
	res, err := run(rp.Program)
	if err != nil {
		t.Fatalf("replay: %v", err)
	}
	out := map[string]interface{}{"property": rp.Property, "violated": res.V != nil}
	if res.V != nil {
		out["clause"] = res.V.Clause
		out["message"] = res.V.Msg
	}
	if p := os.Getenv("VERIF_REPLAY_OUT"); p != "" {
		b, _ := json.Marshal(out)
		os.WriteFile(p, b, 0o644)
	}
	if res.V != nil {
		t.Fatalf("REPLAY-VIOLATION property=%s clause=%s: %s", rp.Property, res.V.Clause, res.V.Msg)
	}
}

// TestCorpus runs every regression program of the property named by VERIF_PROP.
func TestCorpus(t *testing.T) {
	prop := os.Getenv("VERIF_PROP")
	if prop == "" {
		t.Skip("VERIF_PROP not set")
	}
	dir := os.Getenv("VERIF_CORPUS")
	if dir == "" {
		dir = "../corpus"
	}
	files, _ := filepath.Glob(filepath.Join(dir, prop, "*.json"))
	sort.Strings(files)
	failed := []string{}
	for _, f := range files {
		rp, err := harness.LoadReplay(f)
		if err != nil {
			t.Errorf("%v", err)
			continue
		}
		run := Runners[rp.Property]
		if run == nil {
			t.Errorf("%s: no runner for %q", f, rp.Property)
			continue
		}
		// (named before it runs: if the process dies in it, the driver attributes the crash to this file)
		fmt.Fprintf(os.Stderr, "CORPUS-RUNNING file=%s\n", f)
		res, err := run(rp.Program)
		if err != nil {
			t.Errorf("%s: %v", f, err)
			continue
		}
		if res.V != nil {
			failed = append(failed, f)
			t.Logf("CORPUS-VIOLATION property=%s file=%s clause=%s: %s", rp.Property, f, res.V.Clause, res.V.Msg)
		}
	}
	if p := os.Getenv("VERIF_CORPUS_OUT"); p != "" {
		b, _ := json.Marshal(map[string]interface{}{"files": len(files), "failed": failed})
		os.WriteFile(p, b, 0o644)
	}
	if len(failed) > 0 {
		t.Fail()
	}
}

// TestMinimize shrinks the failing file program in VERIF_REPLAY with a delta
// debugging pass that keeps the failing oracle clause, and writes the result
// to VERIF_MIN_OUT.
func TestMinimize(t *testing.T) {
	path, out := os.Getenv("VERIF_REPLAY"), os.Getenv("VERIF_MIN_OUT")
	if path == "" || out == "" {
		t.Skip("VERIF_REPLAY/VERIF_MIN_OUT not set")
	}
	rp, err := harness.LoadReplay(path)
	if err != nil {
		t.Fatal(err)
	}
	run := Runners[rp.Property]
	clause := os.Getenv("VERIF_MIN_CLAUSE")
	if rp.Kind == "queue" {
		var qp harness.QProgram
		if err := json.Unmarshal(rp.Program, &qp); err != nil {
			t.Fatal(err)
		}
		var lastMsg string
		fails := func(q *harness.QProgram) bool {
			res, err := run(q.JSON())
			if err != nil || res.V == nil || (clause != "" && res.V.Clause != clause) {
				return false
			}
			lastMsg = res.V.Msg
			return true
		}
		if !fails(&qp) {
			t.Fatalf("replay does not fail with clause %q", clause)
		}
		min := harness.MinimizeQProgram(&qp, fails, 2000)
		fails(min)
		rp.Program = min.JSON()
		rp.Message = lastMsg
		if err := rp.Save(out); err != nil {
			t.Fatal(err)
		}
		return
	}
	if rp.Kind != "file" {
		t.Skip("only file and queue programs are minimised")
	}
	var p harness.Program
	if err := json.Unmarshal(rp.Program, &p); err != nil {
		t.Fatal(err)
	}
	var lastMsg string
	fails := func(q *harness.Program) bool {
		res, err := run(q.JSON())
		if err != nil || res.V == nil {
			return false
		}
		if clause != "" && res.V.Clause != clause {
			return false
		}
		lastMsg = res.V.Msg
		return true
	}
	if !fails(&p) {
		t.Fatalf("replay does not fail with clause %q", clause)
	}
	min := harness.MinimizeProgram(&p, fails, 3000)
	fails(min)
	rp.Program = min.JSON()
	rp.Message = lastMsg
	if err := rp.Save(out); err != nil {
		t.Fatal(err)
	}
}
