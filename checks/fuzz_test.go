package checks

import (
	"encoding/json"
	"os"
	"testing"

	"pgregory.net/rapid"

	"verif/harness"
)

// Native coverage-guided fuzz targets (thorough tier only). The fuzzer's byte
// string drives rapid's generators (rapid.MakeFuzz), so the inputs are the same
// structured programs as in the rapid search and the oracle is the property's
// run function. A failing program is written to VERIF_FUZZ_OUT as a replay.

func fuzzFail(prop, kind string, prog []byte, v *harness.Violation) {
	if path := os.Getenv("VERIF_FUZZ_OUT"); path != "" {
		rp := harness.Replay{Property: prop, Kind: kind, Clause: v.Clause, Message: v.Msg, Program: json.RawMessage(prog), Generated: "native fuzzing"}
		_ = rp.Save(path)
	}
}

func FuzzC10(f *testing.F) {
	params := C10Params(false)
	f.Add([]byte{})
	f.Add([]byte{0xff, 0xff, 0, 1, 2, 3, 4, 5, 6, 7, 0xff, 0xee, 0x80, 0x40})
	f.Fuzz(rapid.MakeFuzz(func(rt *rapid.T) {
		p := genC10(rt, params)
		res := Guard(func() Result { return RunC10(p) })
		if res.V != nil && matchKnown("C10", res.V) == "" {
			fuzzFail("C10", "file", p.JSON(), res.V)
			rt.Fatalf("C10 violated: %v", res.V)
		}
	}))
}

func FuzzC16(f *testing.F) {
	params := C16Params(false)
	f.Add([]byte{})
	f.Add([]byte{1, 2, 3, 4, 5, 6, 7, 8, 9, 10, 11, 12, 13, 14, 15, 16})
	f.Fuzz(rapid.MakeFuzz(func(rt *rapid.T) {
		p := harness.GenProgram(rt, params)
		p.Aux = []uint64{uint64(rapid.IntRange(0, 2).Draw(rt, "pick")), rapid.Uint64().Draw(rt, "seed"), 0}
		res := GuardEnum(func() Result { return RunC16(p, false) })
		if res.V != nil && matchKnown("C16", res.V) == "" {
			fuzzFail("C16", "file", p.JSON(), res.V)
			rt.Fatalf("C16 violated: %v", res.V)
		}
	}))
}

func FuzzC05(f *testing.F) {
	params := C05Params(false)
	f.Add([]byte{})
	f.Add([]byte{9, 8, 7, 6, 5, 4, 3, 2, 1, 0, 0xff, 0xfe, 0xfd})
	f.Fuzz(rapid.MakeFuzz(func(rt *rapid.T) {
		p := harness.GenQProgram(rt, params)
		res := Guard(func() Result { return RunC05(p) })
		if res.V != nil && matchKnown("C05", res.V) == "" {
			fuzzFail("C05", "queue", p.JSON(), res.V)
			rt.Fatalf("C05 violated: %v", res.V)
		}
	}))
}

func FuzzC14(f *testing.F) {
	params := C14Params(false)
	f.Add([]byte{})
	f.Add([]byte{3, 1, 4, 1, 5, 9, 2, 6, 5, 3, 5, 8, 9, 7, 9, 3, 2, 3, 8, 4})
	f.Fuzz(rapid.MakeFuzz(func(rt *rapid.T) {
		p := genC14(rt, params)
		res := Guard(func() Result { return RunC14(p) })
		if res.V != nil && matchKnown("C14", res.V) == "" {
			fuzzFail("C14", "file", p.JSON(), res.V)
			rt.Fatalf("C14 violated: %v", res.V)
		}
	}))
}

// FuzzC06Faults: queue histories under I/O fault plans (part 3 of C06).
func FuzzC06Faults(f *testing.F) {
	params := C06Params(false)
	params.MaxBlocks = 10
	f.Add([]byte{})
	f.Add([]byte{2, 7, 1, 8, 2, 8, 1, 8, 2, 8, 4, 5, 9, 0, 4, 5})
	f.Fuzz(rapid.MakeFuzz(func(rt *rapid.T) {
		p := harness.GenQProgram(rt, params)
		p.Aux = []uint64{2, rapid.Uint64().Draw(rt, "faultseed")}
		res := Guard(func() Result { return RunC06Faults(p) })
		if res.V != nil && matchKnown("C06", res.V) == "" {
			fuzzFail("C06", "queue", p.JSON(), res.V)
			rt.Fatalf("C06 violated: %v", res.V)
		}
	}))
}
