package checks

import (
	"encoding/json"
	"os"
	"path/filepath"
	"strings"
	"sync"

	"verif/harness"
)

type knownFinding struct {
	Kind     string `json:"kind"`
	Property string `json:"property"`
	ID       string `json:"id"`
	Clause   string `json:"clause"`
	Match    string `json:"match"`
	Exclude  string `json:"exclude"`
}

var (
	knownOnce sync.Once
	knownList []knownFinding
)

func loadKnown() {
	root := os.Getenv("VERIF_ROOT")
	if root == "" {
		root = ".."
	}
	b, err := os.ReadFile(filepath.Join(root, "known_findings.jsonl"))
	if err != nil {
		return
	}
	for _, line := range strings.Split(string(b), "\n") {
		line = strings.TrimSpace(line)
		if line == "" || strings.HasPrefix(line, "#") {
			continue
		}
		var k knownFinding
		if json.Unmarshal([]byte(line), &k) == nil && k.Kind == "finding" {
			knownList = append(knownList, k)
		}
	}
}

// FilterKnown enables the "keep searching behind an open known finding"
// behaviour. It is switched on by the generated search only; replays and the
// corpus always report what they see.
var FilterKnown = false

// matchKnown returns the id of the open known finding whose signature matches v.
func matchKnown(prop string, v *harness.Violation) string {
	if !FilterKnown {
		return ""
	}
	knownOnce.Do(loadKnown)
	for _, k := range knownList {
		if k.Property != prop {
			continue
		}
		if k.Clause != "" && k.Clause != v.Clause {
			continue
		}
		if k.Match != "" && !strings.Contains(v.Msg, k.Match) {
			continue
		}
		return k.ID
	}
	return ""
}

// Excluded reports whether the generator switch of an open finding is set.
func Excluded(name string) bool {
	knownOnce.Do(loadKnown)
	for _, k := range knownList {
		if k.Exclude == name {
			return true
		}
	}
	return false
}
