package checks

import (
	"encoding/json"
	"fmt"
	"os"
	"testing"

	"verif/harness"
	"verif/simdisk"
)

// TestTrace is a debugging aid: VERIF_TRACE=<replay file> runs a file program item by
// item with the content/ownership oracles and prints the internal state after every item.
func TestTrace(t *testing.T) {
	path := os.Getenv("VERIF_TRACE")
	if path == "" {
		t.Skip("VERIF_TRACE not set")
	}
	rp, err := harness.LoadReplay(path)
	if err != nil {
		t.Fatal(err)
	}
	var p harness.Program
	if err := json.Unmarshal(rp.Program, &p); err != nil {
		t.Fatal(err)
	}
	o := harness.RunOpts{CheckContent: true, CheckOwnership: true, CheckResize: true, Drain: true, NoFinalClose: true}
	var r *harness.Runner
	var show func(tag string)
	o.AfterCommit = func(_ *harness.Runner, rec *harness.CommitRec) { show(fmt.Sprintf("commit@%d", rec.Item)) }
	r, v := harness.NewRunner(&p, o)
	if v != nil {
		t.Fatal(v)
	}
	show = func(tag string) {
		s := r.F.VerifState()
		fmt.Printf("%-10s txid=%d max=%d dataEnd=%d metaEnd=%d metaTotal=%d dataFree=%v metaFree=%v fl=%v wal=%v walPages=%v mapped=%d size=%d est=%d disk=%d\n",
			tag, s.TxID, s.MaxPages, s.DataEnd, s.MetaEnd, s.MetaTotal, s.DataFree, s.MetaFree, s.FreelistPages, s.WAL, s.WALPages, s.MappedLen, s.Size, s.SizeEstimate, r.Disk.CurSize())
	}
	show("created")
	if fs := os.Getenv("VERIF_TRACE_FAULT"); fs != "" {
		var k, ord, burst, mode int
		fmt.Sscanf(fs, "%d,%d,%d,%d", &k, &ord, &burst, &mode)
		r.Disk.Arm(&simdisk.Fault{Kind: simdisk.CallKind(k), Ordinal: ord, Burst: burst, Mode: simdisk.FaultMode(mode)})
		r.O.Faults = true
		r.O.CheckOwnership = false
	}
	for i := range p.Items {
		if os.Getenv("VERIF_TRACE_FAULT") != "" && p.Items[i].Reopen != nil {
			continue
		}
		b, _ := json.Marshal(&p.Items[i])
		fmt.Printf("item %d: %s\n", i, b)
		if v := r.RunItem(i, &p.Items[i]); v != nil {
			show("FAILED")
			t.Fatalf("violation: %v", v)
		}
		show(fmt.Sprintf("after %d", i))
	}
	if v := r.Finish(); v != nil {
		t.Fatalf("violation at finish: %v", v)
	}
}

// TestTraceFaults is a debugging aid: VERIF_TRACE=<replay file> runs the complete fault sweep of a
// file program and prints every plan before it runs (the last line names the plan that kills the process).
func TestTraceFaults(t *testing.T) {
	path := os.Getenv("VERIF_TRACE")
	if path == "" {
		t.Skip("VERIF_TRACE not set")
	}
	rp, err := harness.LoadReplay(path)
	if err != nil {
		t.Fatal(err)
	}
	var p harness.Program
	if err := json.Unmarshal(rp.Program, &p); err != nil {
		t.Fatal(err)
	}
	skip := func(i int, it *harness.Item) bool { return it.Reopen != nil }
	ref, v := harness.NewRunner(&p, harness.RunOpts{Drain: true, CheckContent: true, SkipItem: skip})
	if v != nil {
		t.Fatal(v)
	}
	if v = ref.Run(); v != nil {
		t.Fatal(v)
	}
	counts := ref.Disk.Counts()
	for _, k := range faultKinds {
		for ord := 0; ord < counts[k]; ord++ {
			for _, m := range modesFor(k) {
				for burst := 1; burst <= 3; burst += 2 {
					fp := faultPlan{simdisk.Fault{Kind: k, Ordinal: ord, Burst: burst, Mode: m}}
					fmt.Fprintf(os.Stderr, "plan %s\n", fp.String())
					_, v := runWithFault(&p, fp, skip, true)
					if v != nil {
						fmt.Fprintf(os.Stderr, "   -> %v\n", v)
					}
				}
			}
		}
	}
}
