// Command verif is the driver of the verification machinery: it builds the
// check binary from the current /repo tree, runs known-finding replays, the
// regression corpus and the sharded generated search, merges statistics into
// the evidence file and maps outcomes to exit codes
// (0 held, 1 violation, 2 inconclusive / infrastructure).
package main

import (
	"bytes"
	"encoding/json"
	"flag"
	"fmt"
	"os"
	"os/exec"
	"path/filepath"
	"runtime"
	"sort"
	"strconv"
	"strings"
	"sync"
	"time"

	"verif/checks"
	"verif/harness"
)

var root = "/verif"

// repoPrefix is the path prefix of library source files in stack traces (/repo/, or the scratch
// checkout named by VERIF_REPO_DIR when a seeded change is evaluated from a private copy).
var repoPrefix = func() string {
	if d := os.Getenv("VERIF_REPO_DIR"); d != "" {
		return strings.TrimRight(d, "/") + "/"
	}
	return "/repo/"
}()

func main() {
	if len(os.Args) < 2 {
		usage()
	}
	if wd, err := os.Getwd(); err == nil {
		if _, err := os.Stat(filepath.Join(wd, "MANIFEST.json")); err == nil {
			root = wd
		}
	}
	switch os.Args[1] {
	case "check":
		os.Exit(cmdCheck(os.Args[2:]))
	case "replay":
		os.Exit(cmdReplay(os.Args[2:]))
	case "build":
		for _, race := range []bool{false, true} {
			if _, err := build(race); err != nil {
				fmt.Fprintln(os.Stderr, err)
				os.Exit(2)
			}
		}
	case "list":
		ids := []string{}
		for id := range harness.Specs {
			ids = append(ids, id)
		}
		sort.Strings(ids)
		for _, id := range ids {
			fmt.Println(id)
		}
	default:
		usage()
	}
}

func usage() {
	fmt.Fprintln(os.Stderr, "usage: verif check <ID> [--tier quick|thorough] | verif replay <path> | verif build | verif list")
	os.Exit(2)
}

func goEnv() []string {
	env := os.Environ()
	env = append(env, "GOFLAGS=-mod=mod", "GOPROXY=off", "GOSUMDB=off", "GOTOOLCHAIN=local", "GONOSUMDB=*", "GONOSUMCHECK=1")
	return env
}

func buildDir() string { return filepath.Join(root, ".build") }

var buildMu sync.Mutex

// build compiles the checks test binary from the current /repo tree.
func build(race bool) (string, error) {
	buildMu.Lock()
	defer buildMu.Unlock()
	if err := os.MkdirAll(buildDir(), 0o755); err != nil {
		return "", err
	}
	name := "checks.test"
	args := []string{"test", "-c", "-tags", "verif", "-o"}
	if race {
		name = "checks.race.test"
	}
	out := filepath.Join(buildDir(), name)
	args = append(args, out)
	if race {
		args = append(args, "-race")
	}
	args = append(args, "./checks")
	cmd := exec.Command("go", args...)
	cmd.Dir = root
	cmd.Env = goEnv()
	var buf bytes.Buffer
	cmd.Stdout, cmd.Stderr = &buf, &buf
	if err := cmd.Run(); err != nil {
		return "", fmt.Errorf("BUILD-ERROR: go %s: %v\n%s", strings.Join(args, " "), err, buf.String())
	}
	return out, nil
}

type procResult struct {
	exit     int
	out      string
	timedOut bool
}

func runProc(bin string, args []string, env []string, timeout time.Duration) procResult {
	cmd := exec.Command(bin, args...)
	cmd.Dir = filepath.Join(root, "checks")
	cmd.Env = append(os.Environ(), env...)
	var buf bytes.Buffer
	cmd.Stdout, cmd.Stderr = &buf, &buf
	if err := cmd.Start(); err != nil {
		return procResult{exit: 2, out: err.Error()}
	}
	done := make(chan error, 1)
	go func() { done <- cmd.Wait() }()
	var res procResult
	select {
	case err := <-done:
		if err != nil {
			if ee, ok := err.(*exec.ExitError); ok {
				res.exit = ee.ExitCode()
			} else {
				res.exit = 2
			}
		}
	case <-time.After(timeout):
		cmd.Process.Kill()
		<-done
		res.exit = 2
		res.timedOut = true
	}
	res.out = buf.String()
	return res
}

// ---- known findings ----

type knownFinding struct {
	Kind     string `json:"kind"` // "finding" | "fixed"
	Property string `json:"property"`
	ID       string `json:"id"`
	What     string `json:"what"`
	Clause   string `json:"clause,omitempty"`
	Match    string `json:"match,omitempty"` // substring of the violation message identifying this finding
	Replay   string `json:"replay,omitempty"`
	Exclude  string `json:"exclude,omitempty"` // generator exclusion switch
	Commit   string `json:"commit,omitempty"`
}

func loadKnown() ([]knownFinding, error) {
	b, err := os.ReadFile(filepath.Join(root, "known_findings.jsonl"))
	if err != nil {
		if os.IsNotExist(err) {
			return nil, nil
		}
		return nil, err
	}
	var out []knownFinding
	for _, line := range strings.Split(string(b), "\n") {
		line = strings.TrimSpace(line)
		if line == "" || strings.HasPrefix(line, "#") {
			continue
		}
		var k knownFinding
		if err := json.Unmarshal([]byte(line), &k); err != nil {
			return nil, fmt.Errorf("known_findings.jsonl: %v", err)
		}
		out = append(out, k)
	}
	return out, nil
}

func matchesKnown(k *knownFinding, clause, msg string) bool {
	if k.Kind != "finding" {
		return false
	}
	if k.Clause != "" && k.Clause != clause {
		return false
	}
	if k.Match != "" && !strings.Contains(msg, k.Match) {
		return false
	}
	return true
}

type replayOut struct {
	Property string `json:"property"`
	Violated bool   `json:"violated"`
	Clause   string `json:"clause"`
	Message  string `json:"message"`
}

func runReplay(bin, path string, timeout time.Duration) (*replayOut, procResult) {
	tmp := filepath.Join(buildDir(), fmt.Sprintf("replay-out-%d-%d.json", os.Getpid(), time.Now().UnixNano()))
	defer os.Remove(tmp)
	abs, _ := filepath.Abs(path)
	res := runProc(bin, []string{"-test.run", "^TestReplay$", "-test.timeout", "0", "-test.count", "1"},
		[]string{"VERIF_REPLAY=" + abs, "VERIF_REPLAY_OUT=" + tmp, "GORACE=halt_on_error=1 exitcode=66"}, timeout)
	b, err := os.ReadFile(tmp)
	if err != nil {
		if res.exit == 66 || strings.Contains(res.out, "WARNING: DATA RACE") {
			return &replayOut{Violated: true, Clause: "data-race", Message: raceSummary(res.out)}, res
		}
		return nil, res
	}
	var out replayOut
	if json.Unmarshal(b, &out) != nil {
		return nil, res
	}
	return &out, res
}

// ---- check ----

type evidence struct {
	PropertyID  string                 `json:"property_id"`
	Tier        string                 `json:"tier"`
	Seed        int64                  `json:"seed"`
	Level       string                 `json:"level"`
	Coverage    map[string]interface{} `json:"coverage"`
	Assumptions []string               `json:"assumptions"`
	WallS       float64                `json:"wall_s"`
	Violations  int                    `json:"violations"`
}

func cmdCheck(args []string) int {
	if len(args) < 1 {
		usage()
	}
	id := args[0]
	fs := flag.NewFlagSet("check", flag.ExitOnError)
	tier := fs.String("tier", "", "quick|thorough")
	casesFlag := fs.Int("cases", 0, "override the number of generated cases")
	shardsFlag := fs.Int("shards", 0, "override the number of shards")
	fs.Parse(args[1:])
	if *tier == "" {
		*tier = os.Getenv("VERIF_TIER")
	}
	if *tier == "" {
		*tier = "quick"
	}
	if *tier != "quick" && *tier != "thorough" {
		fmt.Fprintln(os.Stderr, "bad tier")
		return 2
	}
	spec := harness.Specs[id]
	if spec == nil {
		fmt.Fprintf(os.Stderr, "unknown property %q\n", id)
		return 2
	}
	_ = checks.Runners

	seed := int64(1)
	if s := os.Getenv("VERIF_SEED"); s != "" {
		if v, err := strconv.ParseInt(s, 10, 64); err == nil {
			seed = v
		}
	}
	start := time.Now()

	bin, err := build(spec.Race)
	if err != nil {
		fmt.Println(err)
		return 2
	}
	plainBin := bin
	if spec.Race {
		// replays and corpus use the race binary too (same semantics, slower)
	}

	known, err := loadKnown()
	if err != nil {
		fmt.Println(err)
		return 2
	}

	violations := 0
	var violationLines []string
	knownHits := map[string]bool{}

	// 1. known findings: replay every open finding of this property
	for i := range known {
		k := &known[i]
		if k.Property != id || k.Kind != "finding" || k.Replay == "" {
			continue
		}
		out, res := runReplay(plainBin, filepath.Join(root, k.Replay), 5*time.Minute)
		if out == nil {
			fmt.Printf("INCONCLUSIVE: replay of known finding %s did not complete (exit %d)\n%s\n", k.ID, res.exit, tail(res.out, 30))
			return 2
		}
		if out.Violated && matchesKnown(k, out.Clause, out.Message) {
			fmt.Printf("KNOWN-FINDING: property=%s %s: %s\n", id, k.ID, k.What)
			knownHits[k.ID] = true
		} else if out.Violated {
			// the stored replay now fails differently: a different violation
			violations++
			line := fmt.Sprintf("VIOLATION property=%s replay=%s", id, filepath.Join(root, k.Replay))
			violationLines = append(violationLines, line)
			fmt.Printf("replay of %s fails with a different signature: [%s] %s\n", k.ID, out.Clause, out.Message)
		} else {
			fmt.Printf("note: known finding %s no longer reproduces on this tree\n", k.ID)
		}
	}

	// 2. regression corpus
	corpusFiles, _ := filepath.Glob(filepath.Join(root, "corpus", id, "*.json"))
	corpusRun := 0
	if len(corpusFiles) > 0 {
		tmp := filepath.Join(buildDir(), fmt.Sprintf("corpus-%s-%d.json", id, os.Getpid()))
		res := runProc(plainBin, []string{"-test.run", "^TestCorpus$", "-test.timeout", "0", "-test.count", "1", "-test.v"},
			[]string{"VERIF_PROP=" + id, "VERIF_CORPUS=" + filepath.Join(root, "corpus"), "VERIF_CORPUS_OUT=" + tmp, "VERIF_TIER=" + *tier}, 10*time.Minute)
		b, rerr := os.ReadFile(tmp)
		os.Remove(tmp)
		var co struct {
			Files  int      `json:"files"`
			Failed []string `json:"failed"`
		}
		if rerr != nil || json.Unmarshal(b, &co) != nil {
			if res.timedOut {
				// A regression program takes milliseconds to seconds; the whole corpus run has ten minutes.
				// If it is still inside one program then, that program hangs (deadlock / lost wake-up).
				file := ""
				for _, l := range strings.Split(res.out, "\n") {
					if i := strings.Index(l, "CORPUS-RUNNING file="); i >= 0 {
						file = strings.TrimSpace(l[i+len("CORPUS-RUNNING file="):])
					}
				}
				if file != "" {
					fmt.Printf("violation: [hang] regression program %s did not finish within the time allowed for the whole corpus (10 min)\n", filepath.Base(file))
					fmt.Printf("VIOLATION property=%s replay=%s\n", id, file)
					return 1
				}
			}
			if !res.timedOut && strings.Contains(res.out, repoPrefix) && (strings.Contains(res.out, "panic:") || strings.Contains(res.out, "fatal error:")) {
				// the process died from a panic / fatal error with library frames (e.g. in the background
				// writer, or a runtime lock error) while running a regression program: a violation on that program
				file := ""
				for _, l := range strings.Split(res.out, "\n") {
					if i := strings.Index(l, "CORPUS-RUNNING file="); i >= 0 {
						file = strings.TrimSpace(l[i+len("CORPUS-RUNNING file="):])
					}
				}
				if file != "" {
					fmt.Printf("violation: [process-crash] regression program %s: %s\n", filepath.Base(file), crashSummary(res.out))
					fmt.Printf("VIOLATION property=%s replay=%s\n", id, file)
					return 1
				}
			}
			fmt.Printf("INCONCLUSIVE: corpus run did not complete (exit %d)\n%s\n", res.exit, tail(res.out, 40))
			return 2
		}
		corpusRun = co.Files
		for _, f := range co.Failed {
			// is it a listed known finding?
			isKnown := false
			for i := range known {
				if known[i].Kind == "finding" && known[i].Property == id && filepath.Join(root, known[i].Replay) == f {
					isKnown = true
				}
			}
			if isKnown {
				continue
			}
			violations++
			violationLines = append(violationLines, fmt.Sprintf("VIOLATION property=%s replay=%s", id, f))
			for _, l := range strings.Split(res.out, "\n") {
				if strings.Contains(l, "CORPUS-VIOLATION") && strings.Contains(l, f) {
					fmt.Println(strings.TrimSpace(l))
				}
			}
		}
	}

	// 3. generated search
	total := spec.Quick
	if *tier == "thorough" {
		total = spec.Thorough
	}
	if *casesFlag > 0 {
		total = *casesFlag
	}
	shards := spec.Shards
	if shards <= 0 {
		shards = 16
	}
	if n := runtime.NumCPU(); shards > n {
		shards = n
	}
	if *shardsFlag > 0 {
		shards = *shardsFlag
	}
	if total < shards {
		shards = 1
	}
	perShard := (total + shards - 1) / shards

	statsDir := filepath.Join(buildDir(), "stats")
	os.MkdirAll(statsDir, 0o755)
	type shardOut struct {
		res   procResult
		stats *harness.ShardStats
		race  *harness.Replay
	}
	outs := make([]shardOut, shards)
	var wg sync.WaitGroup
	var exclude []string
	for i := range known {
		if known[i].Kind == "finding" && known[i].Exclude != "" {
			exclude = append(exclude, known[i].Exclude)
		}
	}
	if total > 0 {
		for i := 0; i < shards; i++ {
			wg.Add(1)
			go func(i int) {
				defer wg.Done()
				sfile := filepath.Join(statsDir, fmt.Sprintf("%s-%d-%d.json", id, os.Getpid(), i))
				os.Remove(sfile)
				rseed := uint64(1) + (uint64(seed)*1000003+uint64(i))%((1<<62)-1)
				args := []string{
					"-test.run", "^" + spec.Test + "$", "-test.count", "1", "-test.timeout", "0",
					"-rapid.checks", strconv.Itoa(perShard), "-rapid.seed", strconv.FormatUint(rseed, 10),
					"-rapid.nofailfile", "-rapid.shrinktime", "20s",
				}
				env := []string{
					"VERIF_STATS=" + sfile, "VERIF_TIER=" + *tier, "VERIF_SHARD=" + strconv.Itoa(i),
					"VERIF_EXCLUDE=" + strings.Join(exclude, ","), "VERIF_ROOT=" + root,
				}
				curCase := filepath.Join(statsDir, fmt.Sprintf("%s-%d-%d.case.json", id, os.Getpid(), i))
				raceLog := filepath.Join(statsDir, fmt.Sprintf("%s-%d-%d.race", id, os.Getpid(), i))
				env = append(env, "VERIF_CURCASE="+curCase)
				if spec.Race {
					env = append(env, "GORACE=halt_on_error=1 exitcode=66 log_path="+raceLog)
				}
				timeout := 40 * time.Minute
				if *tier == "thorough" {
					timeout = 6 * time.Hour
				}
				res := runProc(bin, args, env, timeout)
				var st *harness.ShardStats
				if b, err := os.ReadFile(sfile); err == nil {
					var s harness.ShardStats
					if json.Unmarshal(b, &s) == nil {
						st = &s
					}
				}
				os.Remove(sfile)
				so := shardOut{res: res, stats: st}
				if spec.Race && res.exit == 66 {
					// the race detector aborted the process: attribute to the case that was running
					logs, _ := filepath.Glob(raceLog + "*")
					report := ""
					for _, l := range logs {
						if b, err := os.ReadFile(l); err == nil {
							report += string(b)
						}
						os.Remove(l)
					}
					if rp, err := harness.LoadReplay(curCase); err == nil {
						rp.Clause = "data-race"
						rp.Message = raceSummary(report)
						so.race = rp
					} else {
						so.race = &harness.Replay{Property: id, Kind: "none", Clause: "data-race", Message: raceSummary(report), Program: json.RawMessage("null")}
					}
				}
				if so.race == nil && st == nil && res.exit != 0 && !res.timedOut && strings.Contains(res.out, repoPrefix) &&
					(strings.Contains(res.out, "panic:") || strings.Contains(res.out, "fatal error:")) {
					// the process died from a panic/fatal error outside the goroutine running
					// the case (e.g. in the background writer): attribute it to the running case
					msg := crashSummary(res.out)
					if rp, err := harness.LoadReplay(curCase); err == nil {
						rp.Clause = "process-crash"
						rp.Message = msg
						so.race = rp
					}
				}
				os.Remove(curCase)
				outs[i] = so
			}(i)
		}
		wg.Wait()
	}

	// 3b. native fuzzing (thorough tier only)
	fuzzExecs := 0
	var fuzzFailures []*harness.Replay
	if *tier == "thorough" && len(spec.FuzzTargets) > 0 && *casesFlag == 0 {
		secs := spec.FuzzSeconds
		if secs <= 0 {
			secs = 180
		}
		for _, target := range spec.FuzzTargets {
			outFile := filepath.Join(statsDir, fmt.Sprintf("%s-%s-%d.fuzz.json", id, target, os.Getpid()))
			os.Remove(outFile)
			cmd := exec.Command("go", "test", "-tags", "verif", "-run", "^$", "-fuzz", "^"+target+"$", "-fuzztime", fmt.Sprintf("%ds", secs), "./checks")
			cmd.Dir = root
			cmd.Env = append(goEnv(), "VERIF_FUZZ_OUT="+outFile, "VERIF_ROOT="+root, "VERIF_TIER=thorough")
			var buf bytes.Buffer
			cmd.Stdout, cmd.Stderr = &buf, &buf
			err := cmd.Run()
			out := buf.String()
			fuzzExecs += lastExecs(out)
			if rp, lerr := harness.LoadReplay(outFile); lerr == nil {
				fuzzFailures = append(fuzzFailures, rp)
				os.Remove(outFile)
			} else if err != nil && !strings.Contains(out, "PASS") {
				inconclusiveFuzz(target, out)
			}
			// crashers are converted to replays; do not leave a native corpus behind
			os.RemoveAll(filepath.Join(root, "checks", "testdata", "fuzz", target))
		}
	}

	// 4. merge
	merged := harness.ShardStats{Classes: map[string]int{}, Totals: map[string]int{}, Excluded: map[string]int{}}
	hashes := map[uint64]struct{}{}
	extraDistinct := 0
	inconclusive := 0
	var failures []*harness.Replay
	noMinimize := map[*harness.Replay]bool{}
	for i, o := range outs {
		if total == 0 {
			break
		}
		if o.race != nil {
			failures = append(failures, o.race)
			noMinimize[o.race] = true
			continue
		}
		if o.stats == nil {
			inconclusive++
			fmt.Printf("INCONCLUSIVE: shard %d produced no statistics (exit %d, timeout=%v)\n%s\n", i, o.res.exit, o.res.timedOut, tail(o.res.out, 30))
			continue
		}
		s := o.stats
		merged.Evaluations += s.Evaluations
		for k, v := range s.Classes {
			merged.Classes[k] += v
		}
		for k, v := range s.Totals {
			merged.Totals[k] += v
		}
		for k, v := range s.Excluded {
			merged.Excluded[k] += v
		}
		for _, h := range s.Nontrivial {
			hashes[h] = struct{}{}
		}
		if s.NontrivialN > len(s.Nontrivial) {
			extraDistinct += s.NontrivialN - len(s.Nontrivial)
		}
		if len(merged.Samples) < 4 {
			for _, smp := range s.Samples {
				if len(merged.Samples) < 4 {
					merged.Samples = append(merged.Samples, smp)
				}
			}
		}
		if s.Failure != nil {
			failures = append(failures, s.Failure)
		} else if o.res.exit != 0 {
			inconclusive++
			fmt.Printf("INCONCLUSIVE: shard %d exited with %d without a recorded violation (timeout=%v)\n%s\n", i, o.res.exit, o.res.timedOut, tail(o.res.out, 40))
		}
	}

	failures = append(failures, fuzzFailures...)

	// 5. classify failures: known finding vs new violation
	os.MkdirAll(filepath.Join(root, "replays", id), 0o755)
	seenFail := map[string]bool{}
	// one report per distinct signature (clause + start of message), smallest program first
	sort.SliceStable(failures, func(i, j int) bool { return len(failures[i].Program) < len(failures[j].Program) })
	seenSig := map[string]bool{}
	for _, f := range failures {
		sig := f.Clause + "|" + signature(f.Message)
		if seenSig[sig] {
			continue
		}
		seenSig[sig] = true
		isKnown := false
		for i := range known {
			k := &known[i]
			if k.Property == id && matchesKnown(k, f.Clause, f.Message) {
				isKnown = true
				if !knownHits[k.ID] {
					fmt.Printf("KNOWN-FINDING: property=%s %s: %s\n", id, k.ID, k.What)
					knownHits[k.ID] = true
				}
				merged.Excluded["matched:"+k.ID]++
			}
		}
		if isKnown {
			continue
		}
		// minimise and save
		f.Generated = fmt.Sprintf("verif check %s --tier %s VERIF_SEED=%d", id, *tier, seed)
		h := harness.HashBytes(f.Program)
		path := filepath.Join(root, "replays", id, fmt.Sprintf("%016x.json", h))
		if err := f.Save(path); err != nil {
			fmt.Println("cannot save replay:", err)
			return 2
		}
		if !noMinimize[f] && f.Clause != "hang" {
			if min := minimize(plainBin, path, f.Clause); min != "" {
				path = min
			}
		}
		if seenFail[path] {
			continue
		}
		seenFail[path] = true
		violations++
		violationLines = append(violationLines, fmt.Sprintf("VIOLATION property=%s replay=%s", id, path))
		fmt.Printf("violation: [%s] %s\n", f.Clause, f.Message)
	}

	// 6. evidence
	distinct := len(hashes) + extraDistinct
	cov := map[string]interface{}{
		"evaluations":         merged.Evaluations,
		"distinct_nontrivial": distinct,
		"rule":                spec.Rule,
		"samples":             samplesOrPlaceholder(merged.Samples),
		"classes_cases":       merged.Classes,
		"classes_totals":      merged.Totals,
		"corpus_programs":     corpusRun,
		"shards":              shards,
		"cases_requested":     total,
		"excluded_known":      merged.Excluded,
		"exhaustive":          false,
		"native_fuzz_execs":   fuzzExecs,
		"native_fuzz_targets": spec.FuzzTargets,
	}
	ev := evidence{
		PropertyID:  id,
		Tier:        *tier,
		Seed:        seed,
		Level:       spec.Level,
		Coverage:    cov,
		Assumptions: spec.Assume,
		WallS:       time.Since(start).Seconds(),
		Violations:  violations,
	}
	os.MkdirAll(filepath.Join(root, "evidence"), 0o755)
	b, _ := json.MarshalIndent(&ev, "", " ")
	if err := os.WriteFile(filepath.Join(root, "evidence", id+".json"), append(b, '\n'), 0o644); err != nil {
		fmt.Println("cannot write evidence:", err)
		return 2
	}

	for _, l := range violationLines {
		fmt.Println(l)
	}
	fmt.Printf("%s tier=%s seed=%d cases=%d nontrivial=%d violations=%d wall=%.1fs\n", id, *tier, seed, merged.Evaluations, distinct, violations, time.Since(start).Seconds())
	if violations > 0 {
		return 1
	}
	if inconclusive > 0 {
		return 2
	}
	if total > 0 && merged.Evaluations < total*9/10 {
		fmt.Printf("INCONCLUSIVE: only %d of %d requested cases were executed\n", merged.Evaluations, total)
		return 2
	}
	return 0
}

// lastExecs parses the total number of executions from go test -fuzz output.
func lastExecs(out string) int {
	n := 0
	for _, l := range strings.Split(out, "\n") {
		if i := strings.Index(l, "execs: "); i >= 0 {
			var v int
			if _, err := fmt.Sscanf(l[i+7:], "%d", &v); err == nil && v > n {
				n = v
			}
		}
	}
	return n
}

func inconclusiveFuzz(target, out string) {
	fmt.Printf("note: native fuzz target %s ended abnormally without a recorded violation:\n%s\n", target, tail(out, 15))
}

// crashSummary extracts the panic message and the first library frames.
func crashSummary(out string) string {
	lines := strings.Split(out, "\n")
	msg := ""
	var frames []string
	for _, l := range lines {
		t := strings.TrimSpace(l)
		if msg == "" && (strings.HasPrefix(t, "panic:") || strings.HasPrefix(t, "fatal error:")) {
			msg = t
			continue
		}
		if msg != "" && strings.HasPrefix(t, repoPrefix) {
			if i := strings.Index(t, " +0x"); i > 0 {
				t = t[:i]
			}
			frames = append(frames, strings.TrimPrefix(t, repoPrefix))
			if len(frames) >= 4 {
				break
			}
		}
	}
	return "the test process died: " + msg + " [" + strings.Join(frames, " < ") + "]"
}

// raceSummary extracts the access sites of the first race report.
func raceSummary(report string) string {
	var out []string
	lines := strings.Split(report, "\n")
	for i, l := range lines {
		t := strings.TrimSpace(l)
		if strings.HasPrefix(t, "Read at") || strings.HasPrefix(t, "Write at") || strings.HasPrefix(t, "Previous read at") || strings.HasPrefix(t, "Previous write at") {
			site := ""
			for j := i + 1; j < len(lines) && j < i+6; j++ {
				u := strings.TrimSpace(lines[j])
				if strings.Contains(u, ".go:") {
					site = u
					break
				}
			}
			out = append(out, t[:strings.Index(t, " at")]+" "+site)
		}
		if len(out) >= 2 {
			break
		}
	}
	if len(out) == 0 {
		return "race detector aborted the run (no report captured)"
	}
	return "data race: " + strings.Join(out, " / ")
}

// signature reduces a violation message to its stable part.
func signature(msg string) string {
	var b strings.Builder
	for _, r := range msg {
		if r >= '0' && r <= '9' {
			continue
		}
		b.WriteRune(r)
		if b.Len() >= 60 {
			break
		}
	}
	return b.String()
}

func samplesOrPlaceholder(s []json.RawMessage) []json.RawMessage {
	if len(s) > 0 {
		return s
	}
	return []json.RawMessage{json.RawMessage(`"no non-trivial sample recorded"`)}
}

func tail(s string, n int) string {
	lines := strings.Split(strings.TrimRight(s, "\n"), "\n")
	if len(lines) > n {
		lines = lines[len(lines)-n:]
	}
	return strings.Join(lines, "\n")
}

// minimize runs the delta debugging pass of the test binary on a replay file.
func minimize(bin, path, clause string) string {
	out := strings.TrimSuffix(path, ".json") + ".min.json"
	res := runProc(bin, []string{"-test.run", "^TestMinimize$", "-test.count", "1", "-test.timeout", "0"},
		[]string{"VERIF_REPLAY=" + path, "VERIF_MIN_OUT=" + out, "VERIF_MIN_CLAUSE=" + clause}, 10*time.Minute)
	if res.exit != 0 {
		return ""
	}
	if _, err := os.Stat(out); err != nil {
		return ""
	}
	os.Remove(path)
	os.Rename(out, path)
	return path
}

func cmdReplay(args []string) int {
	if len(args) < 1 {
		usage()
	}
	path := args[0]
	rp, err := harness.LoadReplay(path)
	if err != nil {
		fmt.Println(err)
		return 2
	}
	spec := harness.Specs[rp.Property]
	race := spec != nil && spec.Race
	bin, err := build(race)
	if err != nil {
		fmt.Println(err)
		return 2
	}
	out, res := runReplay(bin, path, 30*time.Minute)
	if out == nil {
		fmt.Printf("INCONCLUSIVE: replay did not complete (exit %d)\n%s\n", res.exit, tail(res.out, 40))
		return 2
	}
	if out.Violated {
		fmt.Printf("[%s] %s\n", out.Clause, out.Message)
		fmt.Printf("VIOLATION property=%s replay=%s\n", rp.Property, path)
		return 1
	}
	fmt.Printf("replay of %s: property %s held\n", path, rp.Property)
	return 0
}
