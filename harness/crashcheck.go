package harness

import (
	"encoding/binary"
	"fmt"
	"hash/fnv"
	"runtime/debug"

	txfile "github.com/elastic/go-txfile"

	"verif/simdisk"
)

// CrashParams configures the crash image enumeration of one history.
type CrashParams struct {
	MaxFull     int   // enumerate all subsets of up to this many pending ops
	Random      int   // random subsets beyond
	TornCuts    []int // header tear positions
	SuffixEvery int   // run the "fully operational" suffix on every n-th image (plus all none/all images)
	MaxImages   int   // stop enumerating a history after this many images (0 = no cap); counted as capped
	Seed        uint64
	// RecrashEvery: on every n-th image that runs the suffix, the suffix is recorded and its own crash
	// images are enumerated (a crash during the first transactions after a crash recovery); 0 = never
	RecrashEvery int
	// FromFirstFailure (queue histories): enumerate only crash positions from shortly before the first
	// failing writer call (the file ran full) onwards
	FromFirstFailure bool
	// Base: durable content before the first logged op (second level enumeration)
	Base  []byte
	level int
}

// CrashStats counts what the enumeration covered.
type CrashStats struct {
	Images      int
	InWindow    int // images whose boundary lies inside a commit window
	Torn        int
	Nontrivial  int // by the rule of C01
	Suffixes    int
	RecoveredTo map[string]int // "old" / "new" inside commit windows
	Positions   int
	TornValid   int // torn headers that happened to be valid (skipped)
	Capped      int // histories whose enumeration was cut at MaxImages
	Recrashes   int // recovered images whose suffix was itself crash-enumerated
	Images2     int // second level images (crash during the transactions that follow a recovery)
}

const hdrMagic = 0xBEA77AEB

// HeaderInfo is an independent parse of a file header page.
type HeaderInfo struct {
	Valid    bool
	TxID     uint64
	PageSize uint32
}

// ParseHeader validates a header with the harness's own implementation of
// the format (magic, version, FNV-32a over the first 80 bytes).
func ParseHeader(b []byte) HeaderInfo {
	const size = txfile.VerifHeaderSize
	if len(b) < size {
		return HeaderInfo{}
	}
	le := binary.LittleEndian
	if le.Uint32(b[0:]) != hdrMagic || le.Uint32(b[4:]) != 1 {
		return HeaderInfo{}
	}
	h := fnv.New32a()
	h.Write(b[:size-4])
	if h.Sum32() != le.Uint32(b[size-4:]) {
		return HeaderInfo{}
	}
	// layout: magic u32, version u32, pageSize u32, maxSize u64, flags u32, root u64, txid u64, ...
	return HeaderInfo{Valid: true, PageSize: le.Uint32(b[8:]), TxID: le.Uint64(b[32:])}
}

type crashState struct {
	txid  uint64
	state *MState
}

// CheckCrashImages enumerates every crash image of the history recorded by r
// (which must have been run with TrackCommits) and checks C01 on each.
func CheckCrashImages(r *Runner, cp CrashParams, st *CrashStats) (v *Violation) {
	log := r.Disk.Log()
	ps := int(r.P.Cfg.PageSize)
	if st.RecoveredTo == nil {
		st.RecoveredTo = map[string]int{}
	}

	initial := crashState{txid: r.InitTxID, state: NewMState()}
	if r.InitState != nil {
		initial.state = r.InitState
	}
	rnd := NewRand(cp.Seed)
	o := simdisk.EnumOpts{
		PageSize:   ps,
		HeaderSize: txfile.VerifHeaderSize,
		MaxFull:    cp.MaxFull,
		Random:     cp.Random,
		TornCuts:   cp.TornCuts,
		Base:       cp.Base,
	}

	imgNo := 0
	lastK := -1
	simdisk.Enumerate(log, r.CreatedIdx, o, rnd, func(spec simdisk.CrashSpec, pend []simdisk.PendOp, img []byte) {
		if v != nil {
			return
		}
		if cp.MaxImages > 0 && imgNo >= cp.MaxImages {
			if imgNo == cp.MaxImages {
				st.Capped++
				imgNo++
			}
			return
		}
		if spec.K != lastK {
			lastK = spec.K
			st.Positions++
		}
		// allowed states at position K
		last := initial
		var inProgress *CommitRec
		for i := range r.Commits {
			c := &r.Commits[i]
			switch {
			case c.EndIdx < spec.K: // end marker issued: commit call returned
				if c.OK {
					last = crashState{txid: c.TxID, state: c.State}
				}
			case c.BeginIdx < spec.K: // begin marker issued, end marker not
				inProgress = c
			}
		}
		allowed := []crashState{last}
		if inProgress != nil && inProgress.OK {
			allowed = append(allowed, crashState{txid: inProgress.TxID, state: inProgress.State})
			for _, id := range inProgress.AltTxIDs {
				allowed = append(allowed, crashState{txid: id, state: inProgress.State})
			}
		}

		if spec.TornAt >= 0 {
			// a torn header that is valid by coincidence describes a legal-looking
			// mixture: checksum collision, not decidable -> skip
			p := pend[spec.TornAt]
			if int(p.Off)+txfile.VerifHeaderSize <= len(img) && ParseHeader(img[p.Off:]).Valid {
				mixed := string(img[p.Off : int(p.Off)+txfile.VerifHeaderSize])
				if mixed != string(p.Data) && mixed != string(spec.TornOld) {
					st.TornValid++
					return
				}
			}
		}

		imgNo++
		st.Images++
		inWindow := inProgress != nil
		if inWindow {
			st.InWindow++
		}
		if spec.TornAt >= 0 {
			st.Torn++
		}
		proper := len(spec.Kept) > 0 && len(spec.Kept) < spec.Pending
		if spec.TornAt >= 0 || (proper && spec.Pending > 0) {
			st.Nontrivial++
		}

		runSuffix := cp.level == 0 && (spec.Family == "none" || spec.Family == "all" || (cp.SuffixEvery > 0 && imgNo%cp.SuffixEvery == 0))
		got, vv := checkOneImage(r, img, allowed, spec, runSuffix, st, &cp)
		if vv != nil {
			v = vv
			return
		}
		if inWindow && inProgress.OK {
			if got == inProgress.TxID {
				st.RecoveredTo["new"]++
			} else {
				st.RecoveredTo["old"]++
			}
		}
	})
	return v
}

func checkOneImage(r *Runner, img []byte, allowed []crashState, spec simdisk.CrashSpec, suffix bool, st *CrashStats, cp *CrashParams) (txid uint64, v *Violation) {
	var f *txfile.File
	defer func() {
		if x := recover(); x != nil {
			stk := debug.Stack()
			v = violationf("crash-panic", spec.K, "crash image {%s}: panic while recovering: %v at %s", spec.String(), x, panicSite(stk))
			if f != nil {
				func() {
					defer func() { recover() }()
					f.Close()
				}()
			}
		}
	}()
	d := simdisk.FromImage("crash", img)
	d.SetRecord(false)
	var err error
	f, err = txfile.VerifOpen(d, txfile.Options{})
	if err != nil {
		return 0, violationf("crash-open", spec.K, "crash image {%s}: open failed: %v", spec.String(), err)
	}
	snap := f.VerifState()
	txid = snap.TxID
	var m *MState
	for _, a := range allowed {
		if a.txid == txid {
			m = a.state
		}
	}
	if m == nil {
		var ids []uint64
		for _, a := range allowed {
			ids = append(ids, a.txid)
		}
		f.Close()
		return txid, violationf("crash-state", spec.K, "crash image {%s}: recovered header txid %d, allowed states have txid %v (older state or state of a failed/unfinished commit exposed)", spec.String(), txid, ids)
	}
	if vv := VerifyAgainst(f, m, spec.K); vv != nil {
		f.Close()
		vv.Clause = "crash-" + vv.Clause
		vv.Msg = fmt.Sprintf("crash image {%s}, recovered txid %d: %s", spec.String(), txid, vv.Msg)
		return txid, vv
	}
	if vv := CheckPartition(&snap, m, spec.K, false); vv != nil {
		f.Close()
		vv.Clause = "crash-" + vv.Clause
		vv.Msg = fmt.Sprintf("crash image {%s}, recovered txid %d: %s", spec.String(), txid, vv.Msg)
		return txid, vv
	}
	// second level: crash during the transactions that follow this recovery. Images with a torn
	// header (the inactive slot holds garbage when the file is used again) are preferred.
	if cp.level == 0 && cp.RecrashEvery > 0 {
		n, every := st.Suffixes+1, cp.RecrashEvery
		pick := suffix
		if spec.TornAt >= 0 {
			n, every, pick = st.Torn, (cp.RecrashEvery+2)/3, true
		}
		if pick && (n+int(cp.Seed%uint64(every)))%every == 0 {
			if suffix {
				st.Suffixes++
			}
			f.Close()
			return txid, recrash(r, img, txid, m, spec, st, cp)
		}
	}
	if suffix {
		st.Suffixes++
		if vv := runSuffixOn(r, d, f, m, spec); vv != nil {
			return txid, vv
		}
		return txid, nil
	}
	if err := f.Close(); err != nil {
		return txid, violationf("crash-close", spec.K, "crash image {%s}: close failed: %v", spec.String(), err)
	}
	return txid, nil
}

// runSuffixOn checks that the recovered file is fully operational: further
// transactions allocate, overwrite, free and commit without altering any
// other page of the recovered state; then a clean reopen shows the same.
func runSuffixOn(r *Runner, d *simdisk.Disk, f *txfile.File, m *MState, spec simdisk.CrashSpec) *Violation {
	suffix := &Program{Cfg: r.P.Cfg, Items: []Item{
		{Tx: &Tx{Overflow: true, Ops: []Op{{K: OpAlloc, A: 3}, {K: OpWrite, A: 1 << 20, B: 0, C: 990001}, {K: OpWriteMany, A: spec.K, B: 2, C: 990002}, {K: OpFree, A: spec.K + 1}}, End: EndCommit}},
		{Tx: &Tx{Overflow: true, Ops: []Op{{K: OpWriteMany, A: spec.K + 2, B: 3, C: 990003}, {K: OpAlloc, A: 1}}, End: EndCommit}},
		{Reopen: &Reopen{Mode: 0}},
	}}
	sr := NewRunnerOn(suffix, RunOpts{CheckContent: true, CheckOwnership: true, Drain: true}, d, f, m)
	if v := sr.Run(); v != nil {
		v.Clause = "crash-suffix-" + v.Clause
		v.Msg = fmt.Sprintf("crash image {%s}: recovered file is not fully operational: %s", spec.String(), v.Msg)
		return v
	}
	return nil
}

// recrash opens the recovered image once more on a recording disk, runs the
// suffix transactions and enumerates the crash images of that run: a crash
// during the first transactions after a crash recovery must again expose the
// recovered state or the state of one of the suffix commits.
func recrash(r *Runner, img []byte, txid uint64, m *MState, spec simdisk.CrashSpec, st *CrashStats, cp *CrashParams) *Violation {
	d := simdisk.FromImage("recrash", img)
	f, err := txfile.VerifOpen(d, txfile.Options{})
	if err != nil {
		return violationf("crash-open", spec.K, "crash image {%s}: second open of the same image failed: %v", spec.String(), err)
	}
	k := spec.K
	suffix := &Program{Cfg: r.P.Cfg, Items: []Item{
		{Tx: &Tx{Overflow: true, Ops: []Op{{K: OpAlloc, A: 2}, {K: OpWrite, A: 1 << 20, B: 0, C: 990011}, {K: OpWriteMany, A: k, B: 2, C: 990012}, {K: OpFree, A: k + 1}}, End: EndCommit}},
		{Tx: &Tx{Overflow: true, WALLimit: uint(k % 3), Ops: []Op{{K: OpWriteMany, A: k + 2, B: 3, C: 990013}, {K: OpFlushTx}, {K: OpAlloc, A: 1}, {K: OpFree, A: k + 3}}, End: EndCommit}},
		{Tx: &Tx{Overflow: true, Ops: []Op{{K: OpAlloc, A: 1}, {K: OpWrite, A: 1 << 20, B: 0, C: 990014}}, End: EndRollback}},
		{Tx: &Tx{Overflow: true, Ops: []Op{{K: OpWriteMany, A: k + 5, B: 1, C: 990015}, {K: OpSetRoot, A: k}}, End: EndCommit}},
	}}
	sr := NewRunnerOn(suffix, RunOpts{CheckContent: true, Drain: true, TrackCommits: true}, d, f, m)
	sr.InitTxID = txid
	sr.InitState = m.Clone()
	sr.CreatedIdx = 0
	if v := sr.Run(); v != nil {
		v.Clause = "crash-suffix-" + v.Clause
		v.Msg = fmt.Sprintf("crash image {%s}: recovered file is not fully operational: %s", spec.String(), v.Msg)
		return v
	}
	st.Recrashes++
	var st2 CrashStats
	cp2 := CrashParams{MaxFull: 4, Random: 2, TornCuts: []int{1, 40, 83}, SuffixEvery: 0, MaxImages: 600, Seed: cp.Seed + uint64(k), Base: img, level: 1}
	v := CheckCrashImages(sr, cp2, &st2)
	st.Images2 += st2.Images
	if v != nil {
		v.Clause = "recrash-" + v.Clause
		v.Msg = fmt.Sprintf("after recovering crash image {%s} (txid %d) and running further transactions, second level %s", spec.String(), txid, v.Msg)
	}
	return v
}

// NewRunnerOn creates a Runner for an already opened file whose committed
// state is described by the model m.
func NewRunnerOn(p *Program, o RunOpts, d *simdisk.Disk, f *txfile.File, m *MState) *Runner {
	r := &Runner{
		P:         p,
		O:         o,
		Disk:      d,
		F:         f,
		C:         m.Clone(),
		Counters:  map[string]int{},
		everFreed: map[txfile.PageID]bool{},
		Obsv:      &StatsObserver{},
	}
	r.nextHandle = 1 << 30
	r.curMax = uint(f.VerifState().MaxPages)
	return r
}

// CheckFaultCrashImages enumerates the crash images of a history that was executed under an
// I/O fault plan (r must have been run with Faults and TrackCommits), from log position `from`
// onwards. A crash image must show, completely, the state of the last commit that returned nil,
// of a commit in progress, or of a commit attempt since then whose only failing calls were syncs
// (a failed sync leaves the writes in the page cache; they may or may not be durable).
func CheckFaultCrashImages(r *Runner, cp CrashParams, st *CrashStats, from int) (v *Violation) {
	log := r.Disk.Log()
	ps := int(r.P.Cfg.PageSize)
	rnd := NewRand(cp.Seed)
	o := simdisk.EnumOpts{PageSize: ps, HeaderSize: txfile.VerifHeaderSize, MaxFull: cp.MaxFull, Random: cp.Random, TornCuts: cp.TornCuts}
	if from < r.CreatedIdx {
		from = r.CreatedIdx
	}
	imgNo := 0
	simdisk.Enumerate(log, from, o, rnd, func(spec simdisk.CrashSpec, pend []simdisk.PendOp, img []byte) {
		if v != nil || (cp.MaxImages > 0 && imgNo >= cp.MaxImages) {
			return
		}
		last := crashState{txid: r.InitTxID, state: NewMState()}
		var maybes []crashState
		var cands []crashState
		for i := range r.Commits {
			c := &r.Commits[i]
			switch {
			case c.BeginIdx >= spec.K:
			case c.OK && c.EndIdx < spec.K:
				last = crashState{txid: c.TxID, state: c.State}
				maybes = nil
			case c.OK: // in progress
				cands = append(cands, crashState{txid: c.TxID, state: c.State})
			case c.MaybeState != nil: // failed by syncs only (finished or in progress)
				maybes = append(maybes, crashState{txid: c.TxID, state: c.MaybeState})
			}
		}
		cands = append(append([]crashState{last}, maybes...), cands...)
		if spec.TornAt >= 0 {
			p := pend[spec.TornAt]
			if int(p.Off)+txfile.VerifHeaderSize <= len(img) && ParseHeader(img[p.Off:]).Valid {
				mixed := string(img[p.Off : int(p.Off)+txfile.VerifHeaderSize])
				if mixed != string(p.Data) && mixed != string(spec.TornOld) {
					return
				}
			}
		}
		imgNo++
		st.Images++
		if len(maybes) > 0 {
			st.InWindow++
		}
		v = checkFaultImage(img, cands, len(maybes) > 0, spec, st)
	})
	return v
}

func checkFaultImage(img []byte, cands []crashState, maybe bool, spec simdisk.CrashSpec, st *CrashStats) (v *Violation) {
	// history pattern of known finding F16: the header of a commit attempt that failed (by syncs only) may be in the file
	clause := func(c string) string {
		if maybe {
			return "failed-commit-header-exposed"
		}
		return c
	}
	var f *txfile.File
	defer func() {
		if x := recover(); x != nil {
			v = violationf(clause("fault-crash-panic"), spec.K, "crash image {%s} of a history with I/O failures: panic while recovering: %v at %s", spec.String(), x, panicSite(debug.Stack()))
			if f != nil {
				func() {
					defer func() { recover() }()
					f.Close()
				}()
			}
		}
	}()
	d := simdisk.FromImage("fault-crash", img)
	d.SetRecord(false)
	var err error
	f, err = txfile.VerifOpen(d, txfile.Options{})
	if err != nil {
		return violationf(clause("fault-crash-open"), spec.K, "crash image {%s} of a history with I/O failures: open failed: %v", spec.String(), err)
	}
	defer f.Close()
	snap := f.VerifState()
	var first *Violation
	tried := 0
	for _, c := range cands {
		if c.txid != snap.TxID {
			continue
		}
		tried++
		vv := VerifyAgainst(f, c.state, spec.K)
		if vv == nil {
			vv = CheckPartition(&snap, c.state, spec.K, false)
		}
		if vv == nil {
			if c.txid != cands[0].txid || c.state != cands[0].state {
				st.RecoveredTo["other"]++
			}
			return nil
		}
		if first == nil {
			first = vv
		}
	}
	if tried == 0 {
		var ids []uint64
		for _, c := range cands {
			ids = append(ids, c.txid)
		}
		return violationf(clause("fault-crash-state"), spec.K, "crash image {%s} of a history with I/O failures: recovered header txid %d, allowed states have txid %v", spec.String(), snap.TxID, ids)
	}
	first.Msg = fmt.Sprintf("crash image {%s} of a history with I/O failures, recovered txid %d matches %d allowed state(s) by txid but none completely: %s", spec.String(), snap.TxID, tried, first.Msg)
	first.Clause = clause("fault-crash-" + first.Clause)
	return first
}
