package harness

import (
	"pgregory.net/rapid"
)

// GenParams tunes the file program generator.
type GenParams struct {
	MaxItems   int
	MinItems   int
	MaxOps     int
	Bounded    int // 0 = either, 1 = bounded only, 2 = unbounded only
	MaxPages   uint
	MinPages   uint
	Stall      bool
	Reopen     bool
	Overflow   bool
	Probe      bool
	BigAllocs  bool // allow allocations of hundreds of pages (region >= 255)
	SmallPages bool // only 1024 byte pages
	NoFill     bool
	AbortHeavy bool // more rollbacks / closes
	SyncNone   bool // allow Options.Sync = SyncNone (not for crash checks)
	HugeTx     bool // rarely: one transaction with more page writes than the writer's batch buffer (1024)
	Shapes     bool // bulk shapes: fragmented free lists, many overwrites, big regions
	LimitOpen  bool // reopen with a max size option but without FlagUpdMaxSize (in-memory limit on unbounded files, ignored otherwise)
}

var pageSizes = []uint32{1024, 2048, 4096}

// GenConfig draws a file configuration.
func GenConfig(t *rapid.T, p GenParams) Config {
	c := Config{}
	if p.SmallPages {
		c.PageSize = 1024
	} else {
		c.PageSize = rapid.SampledFrom(pageSizes).Draw(t, "pageSize")
	}
	bounded := p.Bounded == 1 || (p.Bounded == 0 && rapid.IntRange(0, 3).Draw(t, "bounded") > 0)
	minPages := uint(65536 / c.PageSize)
	if p.MinPages > minPages {
		minPages = p.MinPages
	}
	if bounded {
		maxPages := p.MaxPages
		if maxPages == 0 {
			maxPages = 256
		}
		if maxPages < minPages {
			maxPages = minPages
		}
		// bias towards the minimum so that limits are reached
		if rapid.IntRange(0, 2).Draw(t, "minsize") == 0 {
			c.MaxPages = minPages
		} else {
			c.MaxPages = uint(rapid.IntRange(int(minPages), int(maxPages)).Draw(t, "maxPages"))
		}
		c.Prealloc = rapid.IntRange(0, 3).Draw(t, "prealloc") == 0
		if rapid.IntRange(0, 7).Draw(t, "unaligned") == 0 {
			// a max size that is not a multiple of the page size
			c.MaxExtra = uint32(rapid.SampledFrom([]int{1, 7, 512, int(c.PageSize) - 1}).Draw(t, "maxExtra"))
		}
	}
	c.InitMeta = rapid.SampledFrom([]uint32{0, 0, 1, 2, 4, 8, 16}).Draw(t, "initMeta")
	if p.BigAllocs && (c.MaxPages == 0 || c.MaxPages >= 300) && rapid.IntRange(0, 7).Draw(t, "bigMeta") == 0 {
		// initial meta areas whose free region sits at the boundary of the compact free list entry encoding
		c.InitMeta = rapid.SampledFrom([]uint32{254, 255, 256, 257}).Draw(t, "initMetaBig")
	}
	if c.MaxPages > 0 && uint(c.InitMeta)+3 > c.MaxPages {
		// Options.Validate demands InitMetaArea < total pages - 2 header pages
		c.InitMeta = uint32(c.MaxPages) - 3
	}
	c.SyncFull = rapid.IntRange(0, 5).Draw(t, "syncFull") == 0
	if p.SyncNone && !c.SyncFull && rapid.IntRange(0, 5).Draw(t, "syncNone") == 0 {
		c.SyncNone = true
	}
	return c
}

type opWeight struct {
	k string
	w int
}

var defaultOpWeights = []opWeight{
	{OpAlloc, 22}, {OpWrite, 30}, {OpWriteMany, 8}, {OpRead, 8}, {OpLoad, 4}, {OpFree, 10}, {OpFreeMany, 4},
	{OpFlushPage, 5}, {OpFlushTx, 4}, {OpCheckpoint, 3}, {OpSetRoot, 4}, {OpFill, 2},
}

func genOpKind(t *rapid.T, ws []opWeight) string {
	total := 0
	for _, w := range ws {
		total += w.w
	}
	x := rapid.IntRange(0, total-1).Draw(t, "opk")
	for _, w := range ws {
		if x < w.w {
			return w.k
		}
		x -= w.w
	}
	return ws[0].k
}

// GenOp draws a transaction op.
func GenOp(t *rapid.T, p GenParams) Op {
	ws := defaultOpWeights
	if p.Shapes {
		switch rapid.IntRange(0, 11).Draw(t, "shape") {
		case 0: // fragment the free space: free every second page of many
			return Op{K: OpFreeMany, A: rapid.IntRange(0, 63).Draw(t, "pick"), B: rapid.IntRange(100, 300).Draw(t, "count"), C: 2}
		case 1: // big contiguous free region
			return Op{K: OpFreeMany, A: rapid.IntRange(0, 63).Draw(t, "pick"), B: rapid.SampledFrom([]int{254, 255, 256, 300}).Draw(t, "count"), C: 1}
		case 2: // many overwrites
			return Op{K: OpWriteMany, A: rapid.IntRange(0, 63).Draw(t, "pick"), B: rapid.IntRange(60, 200).Draw(t, "count"), C: rapid.IntRange(1, 1<<20).Draw(t, "seed")}
		case 3, 4: // bulk allocation
			return Op{K: OpAlloc, A: rapid.IntRange(100, 400).Draw(t, "n")}
		}
	}
	k := genOpKind(t, ws)
	if k == OpFill && p.NoFill {
		k = OpAlloc
	}
	op := Op{K: k}
	switch k {
	case OpAlloc:
		hi := 12
		if p.BigAllocs && rapid.IntRange(0, 9).Draw(t, "big") == 0 {
			hi = 320
		}
		op.A = rapid.IntRange(1, hi).Draw(t, "n")
	case OpWrite:
		op.A = rapid.IntRange(0, 63).Draw(t, "pick")
		op.B = rapid.SampledFrom([]int{0, 0, 0, 1, 2}).Draw(t, "mode")
		op.C = rapid.IntRange(1, 1<<20).Draw(t, "seed")
		op.D = rapid.IntRange(0, 4095).Draw(t, "len")
	case OpWriteMany:
		op.A = rapid.IntRange(0, 63).Draw(t, "pick")
		op.B = rapid.IntRange(2, 24).Draw(t, "count")
		op.C = rapid.IntRange(1, 1<<20).Draw(t, "seed")
	case OpRead, OpLoad, OpFree, OpFlushPage:
		op.A = rapid.IntRange(0, 63).Draw(t, "pick")
	case OpFreeMany:
		op.A = rapid.IntRange(0, 63).Draw(t, "pick")
		op.B = rapid.IntRange(2, 40).Draw(t, "count")
		op.C = rapid.IntRange(1, 3).Draw(t, "stride")
	case OpSetRoot:
		op.A = rapid.IntRange(0, 63).Draw(t, "pick")
		if rapid.IntRange(0, 7).Draw(t, "clear") == 0 {
			op.B = 1
		}
	case OpFill:
		op.A = rapid.IntRange(0, 6).Draw(t, "leave")
	}
	return op
}

// GenTx draws a transaction.
func GenTx(t *rapid.T, p GenParams) *Tx {
	tx := &Tx{}
	tx.WALLimit = rapid.SampledFrom([]uint{0, 0, 1, 2, 3, 8}).Draw(t, "wal")
	tx.GrowPct = rapid.SampledFrom([]int{0, 0, 50, 80, 100}).Draw(t, "grow")
	if p.Overflow {
		tx.Overflow = rapid.IntRange(0, 3).Draw(t, "overflow") == 0
	}
	if p.Stall {
		tx.Stall = rapid.IntRange(0, 3).Draw(t, "stall") == 0
	}
	maxOps := p.MaxOps
	if maxOps == 0 {
		maxOps = 10
	}
	tx.Ops = rapid.SliceOfN(rapid.Custom(func(t *rapid.T) Op { return GenOp(t, p) }), 0, maxOps).Draw(t, "ops")
	ends := []string{EndCommit, EndCommit, EndCommit, EndCommit, EndCommit, EndCommit, EndRollback, EndClose}
	if p.AbortHeavy {
		ends = []string{EndCommit, EndCommit, EndRollback, EndClose}
	}
	tx.End = rapid.SampledFrom(ends).Draw(t, "end")
	return tx
}

// GenItem draws a program item.
func GenItem(t *rapid.T, p GenParams) Item {
	x := rapid.IntRange(0, 19).Draw(t, "item")
	switch {
	case x == 0 && p.Reopen:
		if p.LimitOpen && rapid.IntRange(0, 2).Draw(t, "limitOpen") == 0 {
			return Item{Reopen: &Reopen{Mode: 3, NewMax: uint(rapid.IntRange(16, 220).Draw(t, "limit"))}}
		}
		return Item{Reopen: &Reopen{Mode: rapid.IntRange(0, 1).Draw(t, "mode")}}
	case x == 1 && p.Probe:
		return Item{Probe: true}
	}
	return Item{Tx: GenTx(t, p)}
}

// GenProgram draws a whole file program.
func GenProgram(t *rapid.T, p GenParams) *Program {
	prog := &Program{Cfg: GenConfig(t, p)}
	maxItems := p.MaxItems
	if maxItems == 0 {
		maxItems = 12
	}
	minItems := p.MinItems
	if minItems < 1 {
		minItems = 1
	}
	prog.Items = rapid.SliceOfN(rapid.Custom(func(t *rapid.T) Item { return GenItem(t, p) }), minItems, maxItems).Draw(t, "items")
	if p.HugeTx && rapid.IntRange(0, 299).Draw(t, "huge") == 0 && (prog.Cfg.MaxPages == 0) {
		// more queued page writes than the background writer takes in one batch,
		// all queued before the writer runs (stall) - followed by ordinary transactions
		n := rapid.IntRange(1030, 1500).Draw(t, "hugeN")
		huge := Item{Tx: &Tx{Stall: true, Ops: []Op{{K: OpAlloc, A: n}, {K: OpWriteMany, A: 0, B: 0}, {K: OpSetRoot, A: 3}}, End: EndCommit}}
		fill := Item{Tx: &Tx{Stall: true, Ops: []Op{{K: OpWriteMany, A: 0, B: n, C: rapid.IntRange(1, 1<<20).Draw(t, "hugeSeed")}}, End: EndCommit}}
		at := rapid.IntRange(0, len(prog.Items)).Draw(t, "hugeAt")
		items := append([]Item{}, prog.Items[:at]...)
		items = append(items, huge, fill)
		prog.Items = append(items, prog.Items[at:]...)
	}
	return prog
}
