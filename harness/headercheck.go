package harness

import (
	"encoding/binary"
	"fmt"
	"hash/fnv"
	"runtime/debug"

	txfile "github.com/elastic/go-txfile"

	"verif/simdisk"
)

// HeaderStats counts the damage cases explored.
type HeaderStats struct {
	Images      int
	Cases       int
	BitFlips    int
	Tears       int
	Random      int
	Both        int
	Wrap        int
	FellBack    int // opens that had to use the older header
	Rejected    int // opens that failed because no header was intact
	Collisions  int // damaged header still valid by the independent predicate
	Duplicates  int // damaged slot holds a complete copy of the other header
	Suffixes    int
	PageSizeHit int // damage hit the page size field of slot 0
}

// HeaderParams selects how much damage is enumerated per image.
type HeaderParams struct {
	AllBitFlips bool // all 672 single bit flips per slot (else a sampled subset)
	FlipSample  int
	AllTears    bool
	TearSample  int
	Random      int
	SuffixEvery int
	Seed        uint64
}

func resign(h []byte) {
	size := txfile.VerifHeaderSize
	f := fnv.New32a()
	f.Write(h[:size-4])
	binary.LittleEndian.PutUint32(h[size-4:], f.Sum32())
}

// CheckDamagedHeaders applies header damage to an image taken right after a
// successful commit and checks C16 for every damaged copy. states maps header
// txids to model states (both headers describe intact states at that point).
func CheckDamagedHeaders(img []byte, cfg Config, states map[uint64]*MState, hp HeaderParams, st *HeaderStats) (v *Violation) {
	ps := int(cfg.PageSize)
	size := txfile.VerifHeaderSize
	if len(img) < ps+size {
		return violationf("harness", -1, "image too small")
	}
	st.Images++
	// The premise of the property: the file carries two header pages. At a commit boundary (and right
	// after creation) both are intact, one describing the newest and one the previous state; a header
	// that the library itself wrote invalid leaves nothing to fall back to when the other one is damaged.
	if h0, h1 := ParseHeader(img[0:]), ParseHeader(img[ps:]); !h0.Valid || !h1.Valid {
		return violationf("header-not-redundant", -1, "undamaged image at a commit boundary: header page 0 valid=%v (txid %d), header page 1 valid=%v (txid %d): one header is unusable before any damage",
			h0.Valid, h0.TxID, h1.Valid, h1.TxID)
	}
	rnd := NewRand(hp.Seed)
	orig := [2][]byte{append([]byte(nil), img[0:size]...), append([]byte(nil), img[ps:ps+size]...)}
	work := append([]byte(nil), img...)
	caseNo := 0

	restore := func() {
		copy(work[0:size], orig[0])
		copy(work[ps:ps+size], orig[1])
	}

	try := func(desc string) *Violation {
		caseNo++
		st.Cases++
		h0, h1 := ParseHeader(work[0:]), ParseHeader(work[ps:])
		// the implementation locates slot 1 with the page size: the harness knows the true one
		var want uint64
		expectOpen := true
		switch {
		case !h0.Valid && !h1.Valid:
			expectOpen = false
		case h0.Valid && !h1.Valid:
			want = h0.TxID
		case !h0.Valid && h1.Valid:
			want = h1.TxID
		default:
			if int64(h0.TxID-h1.TxID) > 0 {
				want = h0.TxID
			} else {
				want = h1.TxID
			}
		}
		either := false
		if expectOpen {
			// a damaged header that is still valid, but is neither of the two
			// original headers, is a checksum collision: undecidable
			for i, h := range []HeaderInfo{h0, h1} {
				off := i * ps
				cur := string(work[off : off+size])
				if h.Valid && cur != string(orig[i]) {
					if cur == string(orig[1-i]) {
						// the slot holds a complete copy of the other header: both
						// describe the same state; Open may use it or fail cleanly
						either = true
						st.Duplicates++
						continue
					}
					st.Collisions++
					return nil
				}
			}
		}
		if either {
			return openDamaged(work, cfg, states, desc, true, want, false, st, true)
		}
		suffix := hp.SuffixEvery > 0 && caseNo%hp.SuffixEvery == 0
		return openDamaged(work, cfg, states, desc, expectOpen, want, suffix, st, false)
	}

	damageSlot := func(slot int, fn func(h []byte)) {
		restore()
		off := slot * ps
		fn(work[off : off+size])
	}

	for slot := 0; slot < 2; slot++ {
		other := orig[1-slot]
		// single bit flips
		nbits := size * 8
		for b := 0; b < nbits; b++ {
			if !hp.AllBitFlips && hp.FlipSample > 0 && int(rnd()%uint64(nbits)) >= hp.FlipSample {
				continue
			}
			damageSlot(slot, func(h []byte) { h[b/8] ^= 1 << uint(b%8) })
			st.BitFlips++
			if slot == 0 && b/8 >= 8 && b/8 < 12 {
				st.PageSizeHit++
			}
			if v := try(fmt.Sprintf("slot %d bit %d of byte %d flipped", slot, b%8, b/8)); v != nil {
				return v
			}
		}
		// prefix tears
		for j := 1; j <= size; j++ {
			if !hp.AllTears && hp.TearSample > 0 && int(rnd()%uint64(size)) >= hp.TearSample {
				continue
			}
			for mode := 0; mode < 6; mode++ {
				damageSlot(slot, func(h []byte) {
					// modes 0-2: the first j bytes are replaced, modes 3-5: the last j bytes
					from, to := 0, j
					if mode >= 3 {
						from, to = size-j, size
					}
					for i := from; i < to; i++ {
						switch mode % 3 {
						case 0:
							h[i] = 0
						case 1:
							h[i] = other[i]
						default:
							h[i] = byte(rnd())
						}
					}
				})
				st.Tears++
				if v := try(fmt.Sprintf("slot %d %d bytes replaced (mode %d: 0-2 prefix, 3-5 suffix; 0/3=zero 1/4=other slot 2/5=garbage)", slot, j, mode)); v != nil {
					return v
				}
			}
		}
		// whole page zero / garbage
		restore()
		for i := 0; i < ps; i++ {
			work[slot*ps+i] = 0
		}
		if v := try(fmt.Sprintf("slot %d page zeroed", slot)); v != nil {
			return v
		}
		copy(work[slot*ps:(slot+1)*ps], img[slot*ps:(slot+1)*ps])
		// random multi byte damage
		for k := 0; k < hp.Random; k++ {
			n := 1 + int(rnd()%8)
			damageSlot(slot, func(h []byte) {
				for i := 0; i < n; i++ {
					h[rnd()%uint64(size)] ^= byte(1 + rnd()%255)
				}
			})
			st.Random++
			if v := try(fmt.Sprintf("slot %d random damage of %d bytes", slot, n)); v != nil {
				return v
			}
		}
	}

	// both headers damaged
	for k := 0; k < 6+hp.Random; k++ {
		restore()
		for slot := 0; slot < 2; slot++ {
			h := work[slot*ps : slot*ps+size]
			switch k % 3 {
			case 0:
				h[rnd()%uint64(size)] ^= byte(1 + rnd()%255)
			case 1:
				for i := range h {
					h[i] = 0
				}
			default:
				j := 1 + int(rnd()%uint64(size))
				for i := 0; i < j; i++ {
					h[i] = byte(rnd())
				}
			}
		}
		st.Both++
		if v := try("both header pages damaged"); v != nil {
			return v
		}
	}

	// txid wrap around: headers re-signed with crafted txids; signed difference decides
	base := []uint64{^uint64(0), 1 << 63, (1 << 63) - 1, ^uint64(0) - 1, 0}
	for _, x := range base {
		for _, newerSlot := range []int{0, 1} {
			restore()
			h := [2][]byte{work[0:size], work[ps : ps+size]}
			binary.LittleEndian.PutUint64(h[newerSlot][32:], x+1)
			binary.LittleEndian.PutUint64(h[1-newerSlot][32:], x)
			resign(h[0])
			resign(h[1])
			// map the crafted txids to the states of the slots' original txids
			o0, o1 := ParseHeader(orig[0]), ParseHeader(orig[1])
			crafted := map[uint64]*MState{}
			if newerSlot == 0 {
				crafted[x+1], crafted[x] = states[o0.TxID], states[o1.TxID]
			} else {
				crafted[x+1], crafted[x] = states[o1.TxID], states[o0.TxID]
			}
			st.Wrap++
			st.Cases++
			caseNo++
			if v := openDamaged(work, cfg, crafted, fmt.Sprintf("txids re-signed: slot %d has txid %d, slot %d has txid %d", newerSlot, x+1, 1-newerSlot, x),
				true, x+1, false, st, false); v != nil {
				return v
			}
		}
	}
	return nil
}

// openDamaged opens a damaged image. mayFail: an error from Open is acceptable
// (two identical headers), but if it opens the state must be right.
func openDamaged(img []byte, cfg Config, states map[uint64]*MState, desc string, expectOpen bool, want uint64, suffix bool, st *HeaderStats, mayFail bool) (v *Violation) {
	var f *txfile.File
	defer func() {
		if x := recover(); x != nil {
			stk := debug.Stack()
			v = violationf("header-panic", -1, "%s: Open paniced: %v at %s", desc, x, panicSite(stk))
			if f != nil {
				func() {
					defer func() { recover() }()
					f.Close()
				}()
			}
		}
	}()
	d := simdisk.FromImage("damaged", img)
	d.SetRecord(false)
	var err error
	f, err = txfile.VerifOpen(d, txfile.Options{})
	if !expectOpen {
		if err == nil {
			txid := f.VerifState().TxID
			f.Close()
			return violationf("header-accepted", -1, "%s: no intact header, but Open succeeded (txid %d)", desc, txid)
		}
		if d.Locked() {
			return violationf("header-lock", -1, "%s: Open failed but left the file locked", desc)
		}
		st.Rejected++
		return nil
	}
	if err != nil && mayFail {
		if d.Locked() {
			return violationf("header-lock", -1, "%s: Open failed but left the file locked", desc)
		}
		st.Rejected++
		return nil
	}
	if err != nil {
		return violationf("header-fallback", -1, "%s: one header is intact (txid %d) but Open failed: %v", desc, want, err)
	}
	snap := f.VerifState()
	if snap.TxID != want {
		f.Close()
		return violationf("header-choice", -1, "%s: Open recovered txid %d, the intact/newer header has txid %d", desc, snap.TxID, want)
	}
	m := states[want]
	if m == nil {
		f.Close()
		return violationf("harness", -1, "%s: no model state for txid %d", desc, want)
	}
	if vv := VerifyAgainst(f, m, -1); vv != nil {
		f.Close()
		vv.Clause = "header-" + vv.Clause
		vv.Msg = desc + ": " + vv.Msg
		return vv
	}
	if vv := CheckPartition(&snap, m, -1, false); vv != nil {
		f.Close()
		vv.Clause = "header-" + vv.Clause
		vv.Msg = desc + ": " + vv.Msg
		return vv
	}
	if suffix {
		st.Suffixes++
		r := &Runner{P: &Program{Cfg: cfg}}
		if vv := runSuffixOn(r, d, f, m, simdisk.CrashSpec{K: st.Cases, TornAt: -1, Family: desc}); vv != nil {
			vv.Clause = "header-" + vv.Clause
			return vv
		}
		return nil
	}
	if err := f.Close(); err != nil {
		return violationf("close", -1, "%s: Close failed: %v", desc, err)
	}
	return nil
}
