package harness

import (
	"bytes"
	"fmt"
	"os"
	"runtime/debug"
	"sort"
	"strings"
	"sync"
	"time"

	txfile "github.com/elastic/go-txfile"
	"github.com/elastic/go-txfile/txerr"

	"verif/simdisk"
)

// RunOpts selects oracles and behaviours of the file program interpreter.
type RunOpts struct {
	CheckContent     bool // C03: verify model equality after every item
	CheckOwnership   bool // C04: alloc id checks + partition disjointness
	CheckCoverage    bool // C11: every id below the data end marker is accounted for
	CheckLockIdle    bool // C09a: lock state idle between transactions
	CheckStats       bool // C11: FileStats equal reality
	CheckSpace       bool // C11: probe + live + meta area + 2 == max pages; extent <= max size
	CheckResize      bool // C14: oracles around reopen with FlagUpdMaxSize
	CheckReopenState bool // C10: internal state before Close equals state after Open
	Record           bool // record observations for twin comparisons
	Drain            bool // wait for the background writer after scheduling calls
	TrackCommits     bool // keep model snapshots per commit (crash checks)
	NoFinalClose     bool // leave the file open at the end (caller closes)
	Disk             *simdisk.Disk
	// Known findings excluded by construction (see known_findings.jsonl).
	Exclude map[string]bool
	// Concurrent: other goroutines run transactions on the same file; the
	// unsynchronised snapshot hook is only used while this goroutine holds a
	// write transaction.
	Concurrent bool
	// Faults: an I/O fault plan is armed on the disk; Commit may fail for I/O
	// reasons and the C08 oracles are applied.
	Faults bool
	// AfterCommit, if set, is called after every successful commit (writer drained).
	AfterCommit func(r *Runner, rec *CommitRec)
	// SkipItem, if set, is consulted before every item.
	SkipItem func(i int, it *Item) bool
}

// Obs is one recorded observation.
type Obs struct {
	Item int
	Op   int // index in tx, -1 for item level
	Kind string
	OK   bool
	Err  string
	IDs  []uint64
	Hash uint64
	N    int
}

// CommitRec describes one Commit call of the history.
type CommitRec struct {
	Item     int
	BeginIdx int // log index of the begin marker
	EndIdx   int // log index of the end marker
	OK       bool
	TxID     uint64
	// AltTxIDs: further header txids that describe the same state (open-time
	// maintenance runs up to two internal transactions inside one Open call)
	AltTxIDs []uint64
	State    *MState // committed model state after this commit (if OK)
	// MaybeState (fault runs): the commit failed, but only sync calls failed: its state may
	// nevertheless have become durable (TxID is the header txid it would carry)
	MaybeState *MState
}

type txPage struct {
	pg           *txfile.Page
	isNew        bool
	dirty        bool
	flushed      bool
	maybeFlushed bool
}

// Runner executes a file Program against the implementation and the model.
type Runner struct {
	P    *Program
	O    RunOpts
	Disk *simdisk.Disk
	F    *txfile.File
	Obsv *StatsObserver

	C          *MState
	nextHandle int
	Counters   map[string]int
	Trace      []Obs
	Commits    []CommitRec
	CreatedIdx int // log position after file creation
	InitTxID   uint64
	InitState  *MState // committed state the history starts from (nil: empty file)

	stalled   bool
	everFreed map[txfile.PageID]bool
	curItem   int
	openOpts  txfile.Options
	curMax    uint // current max pages (may change through resize)
	// fault mode bookkeeping (C08)
	LastTxID uint64 // header txid of the last successful commit
	// PostPub: an injected size/truncate/mmap failure hit a Commit. Those calls only occur after the
	// new header has been synced (post-publication phase): pattern of known finding F17.
	PostPub bool
	// StickyPattern: an injected failure hit a write of a transaction that ended without Commit
	// (pattern of known finding F11: the writer keeps the error for the next transaction).
	StickyPattern                 bool
	Maybe                         []*MState // states of failed commits whose only failure was a sync (may be durable)
	txFaultOver                   bool      // fault plan was exhausted when the running tx began
	txInjected0                   int
	txSyncs0                      int
	openTx                        *txfile.Tx
	lastProbe                     int
	resize                        *resizeInfo
	hookAfterBegin, hookBeforeEnd func()
}

// StatsObserver records the most recent stats reported by the file. The
// callbacks may be invoked from several goroutines.
type StatsObserver struct {
	mu       sync.Mutex
	Open     txfile.FileStats
	Last     txfile.FileStats
	HaveLast bool
	Opens    int
	TxBegin  int
	TxClose  int
	LastTx   txfile.TxStats
}

func (o *StatsObserver) OnOpen(stats txfile.FileStats) {
	o.mu.Lock()
	o.Open, o.Last, o.HaveLast = stats, stats, true
	o.Opens++
	o.mu.Unlock()
}
func (o *StatsObserver) OnTxBegin(readonly bool) {
	o.mu.Lock()
	o.TxBegin++
	o.mu.Unlock()
}
func (o *StatsObserver) OnTxClose(file txfile.FileStats, tx txfile.TxStats) {
	o.mu.Lock()
	o.TxClose++
	o.LastTx = tx
	// the file stats handed to every callback (commit, rollback, read-only close)
	// must describe the file as it is
	o.Last = file
	o.mu.Unlock()
}

// ErrKindName returns a short name for the error kind of err. (The generated
// ErrKind.String of the repository is off by one, so own names are used.)
func ErrKindName(err error) string {
	if err == nil {
		return ""
	}
	kinds := []struct {
		k txfile.ErrKind
		n string
	}{
		{txfile.OutOfMemory, "OutOfMemory"}, {txfile.TxFinished, "TxFinished"}, {txfile.TxReadOnly, "TxReadOnly"},
		{txfile.InvalidOp, "InvalidOp"}, {txfile.InvalidPageID, "InvalidPageID"}, {txfile.InvalidParam, "InvalidParam"},
		{txfile.InvalidMetaPage, "InvalidMetaPage"}, {txfile.InitFailed, "InitFailed"}, {txfile.InvalidConfig, "InvalidConfig"},
		{txfile.FileCreationFailed, "FileCreationFailed"}, {txfile.InvalidFileSize, "InvalidFileSize"},
		{txfile.InternalError, "InternalError"}, {txfile.TxFailed, "TxFailed"},
		{txfile.TxCommitFail, "TxCommitFail"}, {txfile.TxRollbackFail, "TxRollbackFail"},
	}
	for _, k := range kinds {
		if txerr.Is(k.k, err) {
			return k.n
		}
	}
	for _, k := range []struct {
		k error
		n string
	}{{txfile.NoDiskSpace, "NoDiskSpace"}, {txfile.IOError, "IOError"}, {txfile.LockFailed, "LockFailed"}} {
		if txerr.Is(k.k, err) {
			return k.n
		}
	}
	return "other"
}

// IsOOM reports whether err is an out of space condition.
func IsOOM(err error) bool {
	return err != nil && (txerr.Is(txfile.OutOfMemory, err) || txerr.Is(txfile.NoDiskSpace, err))
}

func (c Config) Options(obs txfile.Observer) txfile.Options {
	o := txfile.Options{
		PageSize:     c.PageSize,
		MaxSize:      c.MaxSize(),
		InitMetaArea: c.InitMeta,
		Prealloc:     c.Prealloc,
		Observer:     obs,
	}
	if c.SyncFull {
		o.Sync = txfile.SyncFull
	}
	if c.SyncNone {
		o.Sync = txfile.SyncNone
	}
	return o
}

// NewRunner creates the file on a fresh simulated disk.
func NewRunner(p *Program, o RunOpts) (*Runner, *Violation) {
	r := &Runner{
		P:         p,
		O:         o,
		C:         NewMState(),
		Counters:  map[string]int{},
		everFreed: map[txfile.PageID]bool{},
		Obsv:      &StatsObserver{},
	}
	r.Disk = o.Disk
	if r.Disk == nil {
		r.Disk = simdisk.New("sim")
	}
	r.openOpts = p.Cfg.Options(r.Obsv)
	r.curMax = p.Cfg.MaxPages
	f, err := txfile.VerifOpen(r.Disk, r.openOpts)
	if err != nil {
		return nil, violationf("create", -1, "creating file failed: %v", err)
	}
	r.F = f
	r.CreatedIdx = r.Disk.LogLen()
	r.InitTxID = f.VerifState().TxID
	r.LastTxID = r.InitTxID
	return r, nil
}

func (r *Runner) count(name string) { r.Counters[name]++ }

// LastStats returns the FileStats most recently handed to the Observer.
func (r *Runner) LastStats() txfile.FileStats {
	r.Obsv.mu.Lock()
	defer r.Obsv.mu.Unlock()
	return r.Obsv.Last
}

func (r *Runner) record(o Obs) {
	if r.O.Record {
		o.Item = r.curItem
		r.Trace = append(r.Trace, o)
	}
}

// repoPrefix is the path prefix of library source files in stack traces.
var repoPrefix = func() string {
	if d := os.Getenv("VERIF_REPO_DIR"); d != "" {
		return strings.TrimRight(d, "/") + "/"
	}
	return "/repo/"
}()

func trimStack(s []byte) string {
	lines := strings.Split(string(s), "\n")
	var keep []string
	for _, l := range lines {
		l = strings.TrimSpace(l)
		if (strings.HasPrefix(l, repoPrefix) || strings.Contains(l, "go-txfile@")) && strings.Contains(l, ".go:") {
			if i := strings.Index(l, " +0x"); i > 0 {
				l = l[:i]
			}
			keep = append(keep, strings.TrimPrefix(l, repoPrefix))
		}
		if len(keep) >= 8 {
			break
		}
	}
	return strings.Join(keep, " < ")
}

// TrimStack reduces a stack trace to the source locations inside the code under test.
func TrimStack(s []byte) string { return trimStack(s) }

// PanicSite extracts the first txfile source location from a stack.
func panicSite(stack []byte) string {
	for _, l := range strings.Split(string(stack), "\n") {
		l = strings.TrimSpace(l)
		if (strings.HasPrefix(l, repoPrefix) || strings.Contains(l, "go-txfile")) && strings.Contains(l, ".go:") {
			if i := strings.Index(l, " +0x"); i > 0 {
				l = l[:i]
			}
			return l
		}
	}
	return "?"
}

// Run executes the whole program. It never panics; a panic inside the
// implementation is converted into a violation.
func (r *Runner) Run() (v *Violation) {
	defer func() {
		if v != nil {
			r.cleanupAfterFailure()
		}
	}()
	defer func() {
		if x := recover(); x != nil {
			st := debug.Stack()
			v = violationf("panic", r.curItem, "panic: %v at %s [%s]", x, panicSite(st), trimStack(st))
		}
	}()

	for i := range r.P.Items {
		r.curItem = i
		it := &r.P.Items[i]
		if r.O.SkipItem != nil && r.O.SkipItem(i, it) {
			continue
		}
		if v := r.RunItem(i, it); v != nil {
			return v
		}
	}
	r.curItem = len(r.P.Items)
	if r.stalled {
		r.release()
	}
	if !r.O.NoFinalClose {
		if v := r.closeFile(); v != nil {
			return v
		}
	}
	return nil
}

// SafeRunItem is RunItem with panic recovery and failure cleanup, for callers
// that drive the items themselves.
func (r *Runner) SafeRunItem(i int, it *Item) (v *Violation) {
	defer func() {
		if x := recover(); x != nil {
			st := debug.Stack()
			v = violationf("panic", i, "panic: %v at %s [%s]", x, panicSite(st), trimStack(st))
		}
		if v != nil {
			r.cleanupAfterFailure()
		}
	}()
	return r.RunItem(i, it)
}

// Finish closes the file (used with NoFinalClose / SafeRunItem).
func (r *Runner) Finish() (v *Violation) {
	defer func() {
		if x := recover(); x != nil {
			st := debug.Stack()
			v = violationf("panic", r.curItem, "panic: %v at %s [%s]", x, panicSite(st), trimStack(st))
		}
	}()
	r.curItem = len(r.P.Items)
	return r.closeFile()
}

// RunItem executes one item and the per item oracles.
func (r *Runner) RunItem(i int, it *Item) *Violation {
	r.curItem = i
	switch {
	case it.Tx != nil:
		if v := r.runTx(i, it.Tx); v != nil {
			return v
		}
	case it.Reopen != nil:
		if v := r.reopen(it.Reopen); v != nil {
			return v
		}
	case it.Misuse:
		if v := r.MisuseMatrix(); v != nil {
			return v
		}
	case it.Probe:
		n, v := r.Probe()
		if v != nil {
			return v
		}
		r.record(Obs{Op: -1, Kind: "probe", OK: true, N: n})
	}
	return r.quiescentChecks()
}

func (r *Runner) cleanupAfterFailure() {
	defer func() { recover() }()
	if r.stalled {
		r.release()
	}
	if tx := r.openTx; tx != nil {
		func() {
			defer func() { recover() }()
			tx.Close()
		}()
		r.openTx = nil
	}
	if r.F != nil {
		f := r.F
		r.F = nil
		done := make(chan struct{})
		go func() {
			defer close(done)
			defer func() { recover() }()
			f.Close()
		}()
		select {
		case <-done:
		case <-time.After(2 * time.Second):
		}
	}
}

func (r *Runner) stall() {
	if r.stalled {
		return
	}
	r.Disk.Hold(simdisk.CallWrite)
	r.stalled = true
	r.count("stall")
}

func (r *Runner) release() {
	if !r.stalled {
		return
	}
	r.Disk.Release()
	r.stalled = false
}

func (r *Runner) drain() {
	if r.O.Drain && !r.stalled && r.F != nil {
		r.F.VerifDrainWriter()
	}
}

func (r *Runner) closeFile() *Violation {
	if r.F == nil {
		return nil
	}
	if r.stalled {
		r.release()
	}
	err := r.F.Close()
	r.F = nil
	if err != nil {
		return violationf("close", r.curItem, "File.Close failed: %v", err)
	}
	if r.Disk.Locked() {
		return violationf("close-lock", r.curItem, "file lock still held after Close")
	}
	return nil
}

func (r *Runner) reopen(ro *Reopen) *Violation {
	var before txfile.VerifSnapshot
	if r.F != nil {
		before = r.F.VerifState()
	}
	probeBefore := -1
	oldMax := r.curMax
	if ro.Mode == 2 && r.O.CheckResize && r.F != nil {
		n, v := r.Probe()
		if v != nil {
			return v
		}
		probeBefore = n
	}
	// previous extent: file size or allocated extent (pages that are allocated
	// but not yet written lie beyond the current file size)
	extentBefore := r.Disk.CurSize()
	if r.F != nil {
		end := before.DataEnd
		if before.MetaEnd > end {
			end = before.MetaEnd
		}
		if e := int64(end) * int64(r.P.Cfg.PageSize); e > extentBefore {
			extentBefore = e
		}
	}
	if v := r.closeFile(); v != nil {
		return v
	}
	opts := txfile.Options{Observer: r.Obsv}
	switch ro.Mode {
	case 1:
		opts = r.openOpts
	case 2:
		opts = r.openOpts
		opts.Flags |= txfile.FlagUpdMaxSize
		opts.InitMetaArea = 0 // only used on creation (and validated against the max size)
		opts.MaxSize = uint64(ro.NewMax) * uint64(r.P.Cfg.PageSize)
		opts.Prealloc = ro.Prealloc
		if ro.NewMax == 0 {
			opts.Flags |= txfile.FlagUnboundMaxSize
		}
	case 3:
		// a max size WITHOUT FlagUpdMaxSize: on a file that is unbounded on disk it is an
		// in-memory limit for this session only; on a bounded file it is ignored
		if min := uint(65536 / r.P.Cfg.PageSize); ro.NewMax < min {
			ro = &Reopen{Mode: 3, NewMax: min}
		}
		opts.MaxSize = uint64(ro.NewMax) * uint64(r.P.Cfg.PageSize)
	}
	beginIdx := 0
	if r.O.TrackCommits && ro.Mode == 2 {
		r.Disk.Mark("cb", r.curItem)
		beginIdx = r.Disk.LogLen() - 1
	}
	f, err := txfile.VerifOpen(r.Disk, opts)
	if err != nil {
		return violationf("reopen", r.curItem, "reopen (mode %d) failed: %v", ro.Mode, err)
	}
	r.F = f
	if r.O.TrackCommits && ro.Mode == 2 {
		// the max-size update runs internal transactions: same contents, new header txid(s)
		r.Disk.Mark("ce", r.curItem)
		endIdx := r.Disk.LogLen() - 1
		if now := f.VerifState().TxID; now != before.TxID {
			rec := CommitRec{Item: r.curItem, BeginIdx: beginIdx, EndIdx: endIdx, OK: true, TxID: now, State: r.C.Clone()}
			for id := before.TxID + 1; id != now; id++ {
				rec.AltTxIDs = append(rec.AltTxIDs, id)
			}
			r.Commits = append(r.Commits, rec)
			r.count("resize-commit-tracked")
		}
	}
	r.count("reopen")
	if ro.Mode == 2 {
		r.curMax = ro.NewMax
		r.openOpts.MaxSize = opts.MaxSize
		r.openOpts.Prealloc = opts.Prealloc
		r.openOpts.InitMetaArea = 0 // creation-time option; would be validated against the new max size
		r.count("resize")
	}
	after := f.VerifState()
	if ro.Mode != 2 {
		// the limit in effect: the one stored in the file, or (unbounded file) the option's
		wantPages := uint(before.HdrMaxSize / uint64(r.P.Cfg.PageSize))
		if before.PageSize != 0 && before.HdrMaxSize == 0 && ro.Mode == 3 {
			wantPages = ro.NewMax
			r.count("reopen-inmemory-limit")
		}
		if before.PageSize != 0 { // a file was open before
			if after.HdrMaxSize != before.HdrMaxSize {
				return violationf("reopen-limit", r.curItem, "open without FlagUpdMaxSize changed the max size stored in the file from %d to %d", before.HdrMaxSize, after.HdrMaxSize)
			}
			if after.MaxPages != wantPages {
				return violationf("reopen-limit", r.curItem, "open (mode %d, option max size %d, stored max size %d): allocator limit is %d pages, expected %d",
					ro.Mode, opts.MaxSize, before.HdrMaxSize, after.MaxPages, wantPages)
			}
			r.curMax = wantPages
		}
	}
	if ro.Mode == 2 && r.O.CheckResize {
		if v := r.checkLockIdle(); v != nil {
			v.Msg = "right after opening with a new maximum size: " + v.Msg
			return v
		}
		// the new limit is what the file reports
		wantMax := uint64(ro.NewMax) * uint64(r.P.Cfg.PageSize)
		if after.HdrMaxSize != wantMax || uint64(after.MaxSize) != wantMax {
			return violationf("resize-limit", r.curItem, "opened with max size %d, file header says %d, allocator uses %d", wantMax, after.HdrMaxSize, after.MaxSize)
		}
		if r.Obsv.Open.MaxSize != wantMax {
			return violationf("resize-limit", r.curItem, "opened with max size %d, OnOpen reported MaxSize %d", wantMax, r.Obsv.Open.MaxSize)
		}
		r.resize = &resizeInfo{oldMax: oldMax, newMax: ro.NewMax, extentBefore: extentBefore}
		r.Disk.ResetMaxExtent()
		if ro.NewMax > 0 && oldMax > 0 && probeBefore >= 0 {
			n, v := r.Probe()
			if v != nil {
				return v
			}
			switch {
			case ro.NewMax > oldMax && uint(before.DataEnd) <= oldMax:
				r.count("resize-grow")
				// pages of the overflow area (beyond the old limit, in use by the meta area
				// already) are not additional space
				usedEnd := oldMax
				if uint(before.MetaEnd) > usedEnd {
					usedEnd = uint(before.MetaEnd)
					r.count("resize-grow-with-overflow-area")
				}
				want := int(ro.NewMax) - int(usedEnd)
				if want < 0 {
					want = 0
				}
				if n-probeBefore != want {
					return violationf("resize-grow", r.curItem, "maximum grew from %d to %d pages (file end before: %d), but allocatable pages changed from %d to %d (expected +%d)",
						oldMax, ro.NewMax, usedEnd, probeBefore, n, want)
				}
			case ro.NewMax < oldMax:
				r.count("resize-shrink")
				if n > probeBefore {
					return violationf("resize-shrink", r.curItem, "maximum shrank from %d to %d pages, but allocatable pages grew from %d to %d", oldMax, ro.NewMax, probeBefore, n)
				}
			}
		}
		if len(before.WAL) > 0 {
			r.count("resize-with-wal")
		}
		for _, reg := range before.DataFree {
			if ro.NewMax > 0 && uint(reg.ID)+uint(reg.Count) > ro.NewMax {
				r.count("resize-free-beyond-limit")
				break
			}
		}
		if ro.NewMax == 0 {
			r.count("resize-unbounded")
		}
	}
	if ro.Mode != 2 && r.O.CheckReopenState && before.MaxPages == after.MaxPages {
		if msg := compareSnapshotsExact(&before, &after); msg != "" {
			return violationf("reopen-state", r.curItem, "internal state differs across close/open: %s", msg)
		}
	}
	if len(before.FreelistPages) >= 2 {
		r.count("reopen-multipage-freelist")
	}
	if len(before.WALPages) >= 2 {
		r.count("reopen-multipage-wal")
	}
	for _, reg := range before.DataFree {
		if reg.Count >= 255 {
			r.count("reopen-bigregion")
			break
		}
	}
	r.record(Obs{Op: -1, Kind: "reopen", OK: true})
	return nil
}

func regionIDs(regs []txfile.VerifRegion) []txfile.PageID {
	var out []txfile.PageID
	for _, r := range regs {
		for i := uint32(0); i < r.Count; i++ {
			out = append(out, r.ID+txfile.PageID(i))
		}
	}
	return out
}

func regionCount(regs []txfile.VerifRegion) uint {
	var n uint
	for _, r := range regs {
		n += uint(r.Count)
	}
	return n
}

func sortedIDs(ids []txfile.PageID) []txfile.PageID {
	out := append([]txfile.PageID(nil), ids...)
	sort.Slice(out, func(i, j int) bool { return out[i] < out[j] })
	return out
}

func fmtRegions(regs []txfile.VerifRegion) string {
	var b strings.Builder
	for i, r := range regs {
		if i > 0 {
			b.WriteByte(' ')
		}
		fmt.Fprintf(&b, "%d+%d", r.ID, r.Count)
	}
	return b.String()
}

// compareSnapshotsExact compares the state before Close with the state after
// Open (same run, so no map-order effects intervene).
func compareSnapshotsExact(a, b *txfile.VerifSnapshot) string {
	switch {
	case a.TxID != b.TxID:
		return fmt.Sprintf("txid %d vs %d", a.TxID, b.TxID)
	case a.Root != b.Root:
		return fmt.Sprintf("root %d vs %d", a.Root, b.Root)
	case a.DataEnd != b.DataEnd:
		return fmt.Sprintf("data end %d vs %d", a.DataEnd, b.DataEnd)
	case a.MetaTotal != b.MetaTotal:
		return fmt.Sprintf("metaTotal %d vs %d", a.MetaTotal, b.MetaTotal)
	case fmtRegions(a.DataFree) != fmtRegions(b.DataFree):
		return fmt.Sprintf("data free list [%s] vs [%s]", fmtRegions(a.DataFree), fmtRegions(b.DataFree))
	case fmtRegions(a.MetaFree) != fmtRegions(b.MetaFree):
		return fmt.Sprintf("meta free list [%s] vs [%s]", fmtRegions(a.MetaFree), fmtRegions(b.MetaFree))
	case a.DataAvail != b.DataAvail || a.MetaAvail != b.MetaAvail:
		return fmt.Sprintf("avail counters %d/%d vs %d/%d", a.DataAvail, a.MetaAvail, b.DataAvail, b.MetaAvail)
	case fmt.Sprint(sortedIDs(a.FreelistPages)) != fmt.Sprint(sortedIDs(b.FreelistPages)):
		return fmt.Sprintf("freelist pages %v vs %v", a.FreelistPages, b.FreelistPages)
	case fmt.Sprint(sortedIDs(a.WALPages)) != fmt.Sprint(sortedIDs(b.WALPages)):
		return fmt.Sprintf("wal pages %v vs %v", a.WALPages, b.WALPages)
	case len(a.WAL) != len(b.WAL):
		return fmt.Sprintf("wal mapping size %d vs %d", len(a.WAL), len(b.WAL))
	}
	for k, v := range a.WAL {
		if b.WAL[k] != v {
			return fmt.Sprintf("wal mapping of page %d: %d vs %d", k, v, b.WAL[k])
		}
	}
	return ""
}

// pick selects the (a mod n)-th handle among those satisfying pred.
func pick(s *MState, a int, pred func(h int, p MPage) bool) (int, bool) {
	hs := s.Handles(pred)
	if len(hs) == 0 {
		return 0, false
	}
	if a < 0 {
		a = -a
	}
	return hs[a%len(hs)], true
}

type txRun struct {
	r            *Runner
	idx          int
	tx           *txfile.Tx
	T            *MState
	local        map[int]*txPage
	freed        map[int]MPage
	snap0        txfile.VerifSnapshot
	flushedAny   bool
	allocPastEnd bool
	freedOwn     bool
	metaGrew     bool
	opIdx        int
}

func (t *txRun) page(h int) (*txPage, *Violation) {
	if lp := t.local[h]; lp != nil && lp.pg != nil {
		return lp, nil
	}
	mp := t.T.Pages[h]
	pg, err := t.tx.Page(mp.ID)
	if err != nil {
		return nil, violationf("page-access", t.idx, "Tx.Page(%d) of live page (handle %d) failed: %v", mp.ID, h, err)
	}
	lp := t.local[h]
	if lp == nil {
		lp = &txPage{}
		t.local[h] = lp
	}
	lp.pg = pg
	return lp, nil
}

func (t *txRun) writable(h int, p MPage) bool {
	lp := t.local[h]
	return lp == nil || (!lp.flushed && !lp.maybeFlushed)
}

func (r *Runner) bounded() bool { return r.curMax > 0 }

// RunTxHooked runs one transaction (no quiescent checks) calling afterBegin
// once Begin has returned and beforeEnd right before the transaction is ended.
// Used by concurrent scenarios; the caller serialises calls.
func (r *Runner) RunTxHooked(idx int, tx *Tx, afterBegin, beforeEnd func()) (v *Violation) {
	defer func() {
		if x := recover(); x != nil {
			st := debug.Stack()
			v = violationf("panic", idx, "panic: %v at %s [%s]", x, panicSite(st), trimStack(st))
		}
		r.hookAfterBegin, r.hookBeforeEnd = nil, nil
	}()
	r.hookAfterBegin, r.hookBeforeEnd = afterBegin, beforeEnd
	r.curItem = idx
	return r.runTx(idx, tx)
}

func (r *Runner) runTx(idx int, tx *Tx) *Violation {
	opts := txfile.TxOptions{
		WALLimit:               tx.WALLimit,
		MetaAreaGrowPercentage: tx.GrowPct,
		EnableOverflowArea:     tx.Overflow,
	}
	if tx.Overflow && r.resize != nil {
		r.resize.overflow = true
	}
	if r.O.Faults {
		r.txFaultOver = r.Disk.FaultOver()
		r.txInjected0 = r.Disk.Injected()
		r.txSyncs0 = r.Disk.Counts()[simdisk.CallSync]
	}
	ftx, err := r.F.BeginWith(opts)
	if err != nil {
		if r.O.Faults && r.Disk.Injected() > r.txInjected0 {
			// an injected I/O failure hit an I/O call made by Begin itself (restoring the file header
			// after a failed commit): the affected operation returned an error, nothing else happened
			r.count("begin-failed-by-fault")
			r.record(Obs{Op: -1, Kind: "begin", OK: false, Err: ErrKindName(err)})
			return nil
		}
		return violationf("begin", idx, "Begin failed: %v", err)
	}
	if tx.Stall {
		// park the background writer from now on (after Begin: Begin itself may have to
		// wait for the writer when it restores the file header after a failed commit)
		r.stall()
	}
	r.openTx = ftx
	if r.hookAfterBegin != nil {
		r.hookAfterBegin()
	}
	t := &txRun{r: r, idx: idx, tx: ftx, T: r.C.Clone(), local: map[int]*txPage{}, freed: map[int]MPage{}}
	t.snap0 = r.F.VerifState()
	r.count("tx")
	if tx.Overflow {
		r.count("tx-overflow")
	}

	for i := range tx.Ops {
		t.opIdx = i
		if v := t.op(&tx.Ops[i]); v != nil {
			return v
		}
	}
	t.opIdx = -1
	if s := r.F.VerifState(); s.MetaTotal > t.snap0.MetaTotal {
		t.metaGrew = true
	}

	if r.hookBeforeEnd != nil {
		r.hookBeforeEnd()
	}
	switch tx.End {
	case EndCommit:
		return t.commit()
	case EndRollback:
		err := ftx.Rollback()
		r.openTx = nil
		if err != nil {
			return violationf("rollback", idx, "Rollback failed: %v", err)
		}
		r.count("rollback")
		t.aborted("rollback")
	default:
		err := ftx.Close()
		r.openTx = nil
		if err != nil {
			return violationf("txclose", idx, "Tx.Close failed: %v", err)
		}
		r.count("txclose")
		t.aborted("close")
	}
	r.drain()
	return nil
}

// committedView returns the model state this transaction would commit.
func (t *txRun) committedView() *MState { return t.T.Clone() }

func (t *txRun) aborted(how string) {
	r := t.r
	if r.O.Faults && how != "commit-failed" && r.Disk.Injected() > r.txInjected0 {
		if f := r.Disk.ArmedFault(); f != nil && f.Kind == simdisk.CallWrite {
			r.StickyPattern = true
		}
	}
	if t.flushedAny {
		r.count("abort-after-flush")
	}
	if t.allocPastEnd && t.freedOwn {
		r.count("abort-alloc-past-end+free-own")
	}
	if t.metaGrew {
		r.count("abort-meta-grow")
	}
	r.record(Obs{Op: -1, Kind: "end-" + how, OK: true})
}

func (t *txRun) commit() *Violation {
	r := t.r
	var flushErr error
	if r.stalled {
		flushErr = t.tx.Flush()
		info := r.F.VerifWriterQueue()
		if info.Scheduled >= 2 {
			r.count("stall-batch>=2")
		}
		if info.Scheduled > 12 {
			r.count("stall-batch>12")
		}
		r.release()
	}
	r.Disk.Mark("cb", t.idx)
	beginIdx := r.Disk.LogLen() - 1
	err := t.tx.Commit()
	r.Disk.Mark("ce", t.idx)
	endIdx := r.Disk.LogLen() - 1
	r.openTx = nil

	rec := CommitRec{Item: t.idx, BeginIdx: beginIdx, EndIdx: endIdx, OK: err == nil}
	if r.O.Faults {
		injected := r.Disk.Injected() - r.txInjected0
		if err == nil && injected > 0 {
			return violationf("fault-swallowed", t.idx, "%d injected I/O failure(s) hit this transaction, but Commit returned nil", injected)
		}
		if err != nil {
			roomy := !r.bounded()
			if !roomy {
				avail := int(t.snap0.DataAvail)
				if uint(t.snap0.DataEnd) < t.snap0.MaxPages {
					avail += int(t.snap0.MaxPages) - int(t.snap0.DataEnd)
				}
				roomy = avail >= 200
			}
			if injected == 0 && r.txFaultOver && roomy {
				cl := "post-fault-commit-failed"
				if r.StickyPattern {
					cl = "sticky-writer-error-after-abort"
					r.StickyPattern = false
				}
				return violationf(cl, t.idx,
					"the I/O failures had stopped before this transaction began and none hit it, but Commit failed: %v", err)
			}
			if injected > 0 {
				if f := r.Disk.ArmedFault(); f != nil && (f.Kind == simdisk.CallSize || f.Kind == simdisk.CallTruncate || f.Kind == simdisk.CallMMap) {
					r.PostPub = true
				}
				r.count("commit-failed-by-fault")
				if f := r.Disk.ArmedFault(); f != nil && f.Kind == simdisk.CallSync {
					// only syncs failed: the commit may have become durable (final sync lost)
					r.Maybe = append(r.Maybe, t.committedView())
					r.count("commit-failed-sync-only")
					rec.MaybeState = t.committedView()
					rec.TxID = r.LastTxID + 1
				}
			}
			if r.O.TrackCommits {
				r.Commits = append(r.Commits, rec)
			}
			t.aborted("commit-failed")
			r.record(Obs{Op: -1, Kind: "commit", OK: false, Err: ErrKindName(err)})
			r.drain()
			if !r.PostPub {
				// a failed Commit leaves no trace in the allocator either: free lists, end markers,
				// meta area size, overwrite mapping are those of the moment the transaction began
				// (a failure after the header was published is the open finding F17: not compared)
				now := r.F.VerifState()
				if b, a := AllocStateString(&t.snap0), AllocStateString(&now); a != b {
					return violationf("failed-commit-residue", t.idx, "Commit failed (%v); allocator state after it differs from the state when the transaction began: before {%s} after {%s}", err, b, a)
				}
				r.count("failed-commit-state-compared")
				if t.metaGrew {
					r.count("failed-commit-after-meta-grow")
				}
			}
			return nil
		}
		r.Maybe = nil
		r.StickyPattern = false
		if !r.O.Concurrent {
			r.LastTxID = r.F.VerifState().TxID
		}
	}
	if err != nil {
		// On a bounded file a commit may fail for lack of space (data, overwrite
		// or metadata pages). The error does not always carry the OutOfMemory kind
		// (a failing page flush inside Commit drops the cause), and no listed
		// property promises one, so any error is taken as "commit failed".
		_ = flushErr
		if !r.bounded() {
			return violationf("commit-error", t.idx, "Commit failed on an unbounded file: %+v", err)
		}
		if IsOOM(err) {
			r.count("commit-failed-oom")
		}
		r.count("commit-failed")
		t.aborted("commit-failed")
		r.record(Obs{Op: -1, Kind: "commit", OK: false, Err: ErrKindName(err)})
		if r.O.TrackCommits {
			r.Commits = append(r.Commits, rec)
		}
		r.drain()
		return nil
	}

	// success: T becomes the committed state
	for _, p := range t.freed {
		r.everFreed[p.ID] = true
	}
	if len(t.freed) > 0 {
		r.count("commit-with-frees")
	}
	r.C = t.T
	r.count("commit")
	if r.resize != nil {
		r.count("commit-after-resize")
	}
	if r.O.Concurrent {
		r.record(Obs{Op: -1, Kind: "commit", OK: true})
		return nil
	}
	s := r.F.VerifState()
	if s.MetaTotal > t.snap0.MetaTotal {
		r.count("meta-grow")
	}
	if s.MappedLen != t.snap0.MappedLen {
		r.count("remap")
	}
	if len(s.FreelistPages) >= 2 {
		r.count("multipage-freelist")
	}
	if len(s.WALPages) >= 2 {
		r.count("multipage-wal")
	}
	rec.TxID = s.TxID
	if r.O.TrackCommits {
		rec.State = r.C.Clone()
		r.Commits = append(r.Commits, rec)
	}
	r.record(Obs{Op: -1, Kind: "commit", OK: true})
	r.drain()
	if r.O.AfterCommit != nil {
		r.O.AfterCommit(r, &rec)
	}
	return nil
}

func (t *txRun) op(op *Op) *Violation {
	r := t.r
	ps := int(r.P.Cfg.PageSize)
	switch op.K {
	case OpAlloc, OpFill:
		n := op.A
		if op.K == OpFill {
			if !r.bounded() {
				return nil
			}
			s := r.F.VerifState()
			avail := int(s.DataAvail)
			if uint(s.DataEnd) < s.MaxPages {
				avail += int(s.MaxPages) - int(s.DataEnd)
			}
			n = avail - op.A
			r.count("fill")
		}
		if n <= 0 {
			return nil
		}
		return t.alloc(n)

	case OpWrite:
		h, ok := pick(t.T, op.A, t.writable)
		if !ok {
			r.count("noop")
			return nil
		}
		return t.write(h, op.B, op.C, op.D)

	case OpWriteMany:
		hs := t.T.Handles(func(h int, p MPage) bool {
			lp := t.local[h]
			return t.writable(h, p) && (lp == nil || !lp.isNew)
		})
		if len(hs) == 0 {
			r.count("noop")
			return nil
		}
		n := op.B
		if n > len(hs) {
			n = len(hs)
		}
		start := op.A % len(hs)
		for i := 0; i < n; i++ {
			if v := t.write(hs[(start+i)%len(hs)], 0, op.C+i, 0); v != nil {
				return v
			}
		}
		return nil

	case OpRead:
		h, ok := pick(t.T, op.A, func(h int, p MPage) bool { return p.Data != nil })
		if !ok {
			r.count("noop")
			return nil
		}
		lp, v := t.page(h)
		if v != nil {
			return v
		}
		b, err := lp.pg.Bytes()
		if err != nil {
			return violationf("readback-error", t.idx, "Bytes() of page %d (handle %d) failed inside write tx: %v", t.T.Pages[h].ID, h, err)
		}
		want := t.T.Pages[h].Data
		if !bytes.Equal(b, want) {
			return violationf("readback-mismatch", t.idx, "op %d: page %d (handle %d) reads %s, own latest write is %s (first diff at byte %d)",
				t.opIdx, t.T.Pages[h].ID, h, Stamp(b), Stamp(want), firstDiff(b, want))
		}
		r.count("readback")
		r.record(Obs{Op: t.opIdx, Kind: "read", OK: true, Hash: hashBytes(b)})
		return nil

	case OpLoad:
		// Load the contents of a page with defined contents into the transaction's private buffer, but do
		// not modify it: the page stays clean, its contents must survive (checkpoints, commit, reopen)
		h, ok := pick(t.T, op.A, func(h int, p MPage) bool { return p.Data != nil && t.writable(h, p) })
		if !ok {
			r.count("noop")
			return nil
		}
		lp, v := t.page(h)
		if v != nil {
			return v
		}
		if err := lp.pg.Load(); err != nil {
			return violationf("load-error", t.idx, "Load() of page %d (handle %d) failed: %v", t.T.Pages[h].ID, h, err)
		}
		b, err := lp.pg.Bytes()
		if err != nil || !bytes.Equal(b, t.T.Pages[h].Data) {
			return violationf("readback-mismatch", t.idx, "op %d: after Load() page %d (handle %d) reads %s (err=%v), own latest write is %s",
				t.opIdx, t.T.Pages[h].ID, h, Stamp(b), err, Stamp(t.T.Pages[h].Data))
		}
		r.count("load-only")
		return nil

	case OpFree:
		if op.B == 1 {
			// count from the end: the (A+1)-th last freeable handle (the most recently allocated pages)
			hs := t.T.Handles(t.freeable)
			if len(hs) == 0 {
				r.count("noop")
				return nil
			}
			return t.free(hs[len(hs)-1-op.A%len(hs)])
		}
		h, ok := pick(t.T, op.A, t.freeable)
		if !ok {
			r.count("noop")
			return nil
		}
		return t.free(h)

	case OpFreeMany:
		hs := t.T.Handles(t.freeable)
		if len(hs) == 0 {
			r.count("noop")
			return nil
		}
		stride := op.C
		if stride < 1 {
			stride = 1
		}
		start := op.A % len(hs)
		n := 0
		for i := start; i < len(hs) && n < op.B; i += stride {
			if v := t.free(hs[i]); v != nil {
				return v
			}
			n++
		}
		return nil

	case OpFlushPage:
		h, ok := pick(t.T, op.A, func(h int, p MPage) bool {
			lp := t.local[h]
			return lp != nil && lp.dirty && !lp.flushed && !lp.maybeFlushed
		})
		if !ok {
			r.count("noop")
			return nil
		}
		lp := t.local[h]
		err := lp.pg.Flush()
		if err != nil {
			if !IsOOM(err) || !r.bounded() {
				return violationf("flush-error", t.idx, "Page.Flush of page %d failed: %v", t.T.Pages[h].ID, err)
			}
			r.count("flush-oom")
			r.record(Obs{Op: t.opIdx, Kind: "flushpage", OK: false, Err: ErrKindName(err)})
			return nil
		}
		lp.flushed = true
		t.flushedAny = true
		r.count("flushpage")
		r.record(Obs{Op: t.opIdx, Kind: "flushpage", OK: true})
		r.drain()
		return nil

	case OpFlushTx:
		err := t.tx.Flush()
		if err != nil {
			if !IsOOM(err) || !r.bounded() {
				return violationf("flush-error", t.idx, "Tx.Flush failed: %v", err)
			}
			for _, lp := range t.local {
				if lp.dirty && !lp.flushed {
					lp.maybeFlushed = true
				}
			}
			r.count("flush-oom")
			r.record(Obs{Op: t.opIdx, Kind: "flush", OK: false, Err: ErrKindName(err)})
			r.drain() // the pages flushed before the error are queued
			return nil
		}
		for _, lp := range t.local {
			if lp.dirty && !lp.flushed {
				lp.flushed = true
				t.flushedAny = true
			}
		}
		r.count("flushtx")
		r.record(Obs{Op: t.opIdx, Kind: "flush", OK: true})
		r.drain()
		return nil

	case OpCheckpoint:
		s := r.F.VerifState()
		err := t.tx.CheckpointWAL()
		if err != nil {
			return violationf("checkpoint-error", t.idx, "CheckpointWAL failed: %v", err)
		}
		if len(s.WAL) > 0 {
			r.count("checkpoint-nonempty")
		}
		r.count("checkpoint")
		r.record(Obs{Op: t.opIdx, Kind: "checkpoint", OK: true})
		r.drain()
		return nil

	case OpSetRoot:
		if op.B == 1 {
			t.tx.SetRoot(0)
			t.T.Root, t.T.RootID = -1, 0
			return nil
		}
		h, ok := pick(t.T, op.A, nil)
		if !ok {
			r.count("noop")
			return nil
		}
		id := t.T.Pages[h].ID
		t.tx.SetRoot(id)
		t.T.Root, t.T.RootID = h, id
		r.count("setroot")
		return nil
	}
	_ = ps
	return violationf("harness", t.idx, "unknown op %q", op.K)
}

func (t *txRun) freeable(h int, p MPage) bool {
	lp := t.local[h]
	return lp == nil || !lp.dirty
}

func hashBytes(b []byte) uint64 {
	var h uint64 = 14695981039346656037
	for _, c := range b {
		h ^= uint64(c)
		h *= 1099511628211
	}
	return h
}

func (t *txRun) alloc(n int) *Violation {
	r := t.r
	var pages []*txfile.Page
	var err error
	if n == 1 {
		var p *txfile.Page
		p, err = t.tx.Alloc()
		if err == nil {
			pages = []*txfile.Page{p}
		}
	} else {
		pages, err = t.tx.AllocN(n)
	}
	if err != nil {
		if !IsOOM(err) || !r.bounded() {
			return violationf("alloc-error", t.idx, "AllocN(%d) failed: %v", n, err)
		}
		r.count("alloc-oom")
		r.record(Obs{Op: t.opIdx, Kind: "alloc", OK: false, Err: ErrKindName(err), N: n})
		return nil
	}
	if len(pages) != n {
		return violationf("alloc-count", t.idx, "AllocN(%d) returned %d pages", n, len(pages))
	}

	var snap txfile.VerifSnapshot
	var internal map[txfile.PageID]string
	var committedIDs, txIDs map[txfile.PageID]int
	if r.O.CheckOwnership {
		snap = r.F.VerifState()
		internal = internalPages(&snap)
		committedIDs = r.C.IDSet()
		txIDs = t.T.IDSet()
	}

	ids := make([]uint64, 0, n)
	seen := map[txfile.PageID]bool{}
	for _, p := range pages {
		id := p.ID()
		ids = append(ids, uint64(id))
		if r.O.CheckOwnership {
			switch {
			case id < 2:
				return violationf("alloc-id", t.idx, "op %d: allocation returned header page id %d", t.opIdx, id)
			case seen[id]:
				return violationf("alloc-id", t.idx, "op %d: AllocN(%d) returned id %d twice", t.opIdx, n, id)
			}
			if h, live := txIDs[id]; live {
				return violationf("alloc-id", t.idx, "op %d: allocation returned id %d which is live in the running transaction (handle %d)", t.opIdx, id, h)
			}
			if h, live := committedIDs[id]; live {
				return violationf("alloc-id", t.idx, "op %d: allocation returned id %d which is live in the committed state (handle %d, freed in this tx: %v)", t.opIdx, id, h, t.freed[h].ID == id)
			}
			if what, bad := internal[id]; bad {
				return violationf("alloc-id", t.idx, "op %d: allocation returned id %d which the file uses internally (%s)", t.opIdx, id, what)
			}
		}
		seen[id] = true
		if r.everFreed[id] {
			r.count("reuse-freed")
		}
		if id >= t.snap0.DataEnd {
			t.allocPastEnd = true
		}
		h := r.nextHandle
		r.nextHandle++
		t.T.Pages[h] = MPage{ID: id}
		t.local[h] = &txPage{pg: p, isNew: true}
	}
	r.count("alloc")
	r.record(Obs{Op: t.opIdx, Kind: "alloc", OK: true, IDs: ids, N: n})
	return nil
}

// internalPages lists every page the file uses for its own purposes.
func internalPages(s *txfile.VerifSnapshot) map[txfile.PageID]string {
	m := map[txfile.PageID]string{}
	for _, id := range regionIDs(s.MetaFree) {
		m[id] = "meta free list"
	}
	for _, id := range s.FreelistPages {
		m[id] = "free list page"
	}
	for _, id := range s.WALPages {
		m[id] = "overwrite mapping page"
	}
	for k, v := range s.WAL {
		m[v] = fmt.Sprintf("overwrite page of %d", k)
	}
	return m
}

func (t *txRun) write(h int, mode, seed, lenParam int) *Violation {
	r := t.r
	ps := int(r.P.Cfg.PageSize)
	lp, v := t.page(h)
	if v != nil {
		return v
	}
	mp := t.T.Pages[h]
	base := mp.Data
	if base == nil {
		if lp.isNew {
			base = make([]byte, ps)
			if mode != 0 {
				r.count("partial-on-fresh")
			}
		} else {
			mode = 0 // content undefined: only a full write is meaningful
		}
	} else if lp.isNew && mode != 0 {
		r.count("partial-on-fresh-written")
	}
	if lenParam < 0 {
		lenParam = -lenParam
	}

	var err error
	var nd []byte
	switch mode {
	case 0:
		nd = Content(seed, ps)
		err = lp.pg.SetBytes(append([]byte(nil), nd...))
	case 1:
		l := 1 + lenParam%(ps-1)
		c := Content(seed, ps)[:l]
		nd = append([]byte(nil), base...)
		copy(nd, c)
		err = lp.pg.SetBytes(append([]byte(nil), c...))
		r.count("write-partial")
	default:
		err = lp.pg.Load()
		if err == nil {
			var b []byte
			b, err = lp.pg.Bytes()
			if err == nil {
				if !bytes.Equal(b, base) {
					return violationf("load-mismatch", t.idx, "op %d: Load()+Bytes() of page %d (handle %d) returns %s, expected %s (first diff %d)",
						t.opIdx, mp.ID, h, Stamp(b), Stamp(base), firstDiff(b, base))
				}
				off := lenParam % ps
				l := 16 + seed%200
				if off+l > ps {
					l = ps - off
				}
				c := Content(seed, ps)
				nd = append([]byte(nil), base...)
				copy(nd[off:off+l], c[:l])
				copy(b[off:off+l], c[:l])
				err = lp.pg.MarkDirty()
			}
		}
		r.count("write-load")
	}
	if err != nil {
		return violationf("write-error", t.idx, "op %d: write mode %d on page %d failed: %v", t.opIdx, mode, mp.ID, err)
	}
	if !lp.isNew && !lp.dirty {
		r.count("overwrite")
	}
	lp.dirty = true
	t.T.Pages[h] = MPage{ID: mp.ID, Data: nd}
	r.count("write")
	return nil
}

func (t *txRun) free(h int) *Violation {
	r := t.r
	lp, v := t.page(h)
	if v != nil {
		return v
	}
	mp := t.T.Pages[h]
	if err := lp.pg.Free(); err != nil {
		return violationf("free-error", t.idx, "op %d: Free of page %d failed: %v", t.opIdx, mp.ID, err)
	}
	if lp.isNew {
		t.freedOwn = true
		r.count("free-own")
	} else {
		t.freed[h] = mp
		r.count("free")
	}
	delete(t.T.Pages, h)
	delete(t.local, h)
	if t.T.Root == h {
		// root keeps pointing to the id; the model only tracks the id
		t.T.Root = -1
	}
	r.record(Obs{Op: t.opIdx, Kind: "free", OK: true})
	return nil
}

// Probe measures the number of allocatable pages: allocate until failure in a
// transaction that is rolled back. Only meaningful on bounded files.
func (r *Runner) Probe() (int, *Violation) {
	if !r.bounded() {
		return -1, nil
	}
	tx, err := r.F.Begin()
	if err != nil {
		return 0, violationf("begin", r.curItem, "Begin (probe) failed: %v", err)
	}
	r.openTx = tx
	total := 0
	s := r.F.VerifState()
	guess := int(s.DataAvail)
	if uint(s.DataEnd) < s.MaxPages {
		guess += int(s.MaxPages) - int(s.DataEnd)
	}
	// first try the expected amount, then single pages
	step := guess
	for step >= 1 {
		pages, err := tx.AllocN(step)
		if err != nil {
			if !IsOOM(err) {
				tx.Close()
				r.openTx = nil
				return 0, violationf("alloc-error", r.curItem, "probe AllocN(%d) failed: %v", step, err)
			}
			step /= 2
			continue
		}
		total += len(pages)
		if total > int(r.curMax)+8 {
			break
		}
	}
	err = tx.Rollback()
	r.openTx = nil
	if err != nil {
		return 0, violationf("rollback", r.curItem, "probe rollback failed: %v", err)
	}
	r.count("probe")
	r.lastProbe = total
	return total, nil
}

// Verify compares the committed state with the model in a read transaction.
func (r *Runner) Verify() *Violation {
	return VerifyAgainst(r.F, r.C, r.curItem)
}

// VerifyAgainst checks root and every written live page of the model.
func VerifyAgainst(f *txfile.File, m *MState, item int) *Violation {
	tx, err := f.BeginReadonly()
	if err != nil {
		return violationf("begin", item, "BeginReadonly failed: %v", err)
	}
	defer tx.Close()
	if got := tx.Root(); got != m.RootID {
		return violationf("root-mismatch", item, "root is %d, last committed root is %d", got, m.RootID)
	}
	for _, h := range m.Handles(nil) {
		p := m.Pages[h]
		if p.Data == nil {
			continue
		}
		pg, err := tx.Page(p.ID)
		if err != nil {
			return violationf("content-access", item, "read tx: Page(%d) (handle %d) failed: %v", p.ID, h, err)
		}
		b, err := pg.Bytes()
		if err != nil {
			return violationf("content-access", item, "read tx: Bytes of page %d (handle %d) failed: %v", p.ID, h, err)
		}
		if !bytes.Equal(b, p.Data) {
			return violationf("content-mismatch", item, "page %d (handle %d) reads %s, last committed write is %s (first diff at byte %d)",
				p.ID, h, Stamp(b), Stamp(p.Data), firstDiff(b, p.Data))
		}
	}
	return nil
}

func (r *Runner) quiescentChecks() *Violation {
	if r.F == nil {
		return nil
	}
	if r.O.CheckLockIdle {
		if v := r.checkLockIdle(); v != nil {
			return v
		}
	}
	if r.O.CheckContent {
		if v := r.Verify(); v != nil {
			return v
		}
	}
	if r.O.CheckOwnership || r.O.CheckCoverage {
		s := r.F.VerifState()
		if v := CheckPartition(&s, r.C, r.curItem, r.O.CheckCoverage); v != nil {
			return v
		}
	}
	if r.O.CheckStats {
		if v := r.checkStats(); v != nil {
			return v
		}
	}
	if r.O.CheckResize && r.resize != nil && r.resize.newMax > 0 && !r.resize.overflow {
		limit := int64(r.resize.newMax) * int64(r.P.Cfg.PageSize)
		if r.resize.extentBefore > limit {
			limit = r.resize.extentBefore
		}
		if ext := r.Disk.MaxExtent(); ext > limit {
			return violationf("resize-extent", r.curItem, "after setting the maximum to %d pages the file grew to %d bytes; larger of previous extent and new limit is %d",
				r.resize.newMax, ext, limit)
		}
	}
	if r.O.CheckSpace && r.bounded() {
		if v := r.checkSpace(); v != nil {
			return v
		}
	}
	return nil
}

// checkSpace is the space conservation oracle of C11.
func (r *Runner) checkSpace() *Violation {
	n, v := r.Probe()
	if v != nil {
		return v
	}
	live := len(r.C.Pages)
	metaArea := int(r.F.VerifState().MetaTotal)
	if r.Obsv.HaveLast {
		metaArea = int(r.Obsv.Last.MetaArea)
	}
	if n+live+metaArea+2 != int(r.curMax) {
		return violationf("space-equation", r.curItem, "allocatable %d + live %d + meta area %d + 2 header pages = %d, configured maximum is %d pages",
			n, live, metaArea, n+live+metaArea+2, r.curMax)
	}
	// the configured maximum size (the option value; it need not be a multiple of the page size)
	maxSize := int64(r.curMax) * int64(r.P.Cfg.PageSize)
	if r.curMax == r.P.Cfg.MaxPages && r.Counters["resize"] == 0 {
		maxSize = int64(r.P.Cfg.MaxSize())
	}
	if ext := r.Disk.MaxExtent(); ext > maxSize {
		return violationf("extent", r.curItem, "file grew to %d bytes, maximum size is %d", ext, maxSize)
	}
	return nil
}

func (r *Runner) checkLockIdle() *Violation {
	ls := r.F.VerifLockState()
	if ls.SharedCount != 0 || ls.PendingSet || ls.ReservedHeld {
		return violationf("lock-not-idle", r.curItem, "no transaction open but lock state is shared=%d pending=%v reserved=%v",
			ls.SharedCount, ls.PendingSet, ls.ReservedHeld)
	}
	return nil
}

func (r *Runner) checkStats() *Violation {
	if !r.Obsv.HaveLast {
		return nil
	}
	s := r.F.VerifState()
	st := r.Obsv.Last
	live := uint(len(r.C.Pages))
	if st.DataAllocated != live {
		return violationf("stats-data", r.curItem, "FileStats.DataAllocated=%d but %d pages are live", st.DataAllocated, live)
	}
	if st.MetaArea != s.MetaTotal {
		return violationf("stats-meta", r.curItem, "FileStats.MetaArea=%d but meta area has %d pages", st.MetaArea, s.MetaTotal)
	}
	if st.MetaAllocated != s.MetaTotal-regionCount(s.MetaFree) {
		return violationf("stats-meta", r.curItem, "FileStats.MetaAllocated=%d but %d meta pages are in use", st.MetaAllocated, s.MetaTotal-regionCount(s.MetaFree))
	}
	return nil
}

// AllocStateString renders the complete in-memory allocator state except the transaction id.
func AllocStateString(s *txfile.VerifSnapshot) string {
	reg := func(rs []txfile.VerifRegion) string {
		var out []string
		for _, r := range rs {
			out = append(out, fmt.Sprintf("%d+%d", r.ID, r.Count))
		}
		return strings.Join(out, " ")
	}
	ids := func(in []txfile.PageID) string {
		c := append([]txfile.PageID(nil), in...)
		sort.Slice(c, func(i, j int) bool { return c[i] < c[j] })
		return fmt.Sprint(c)
	}
	var wal []string
	for k, v := range s.WAL {
		wal = append(wal, fmt.Sprintf("%d>%d", k, v))
	}
	sort.Strings(wal)
	return fmt.Sprintf("root=%d maxPages=%d dataEnd=%d metaEnd=%d metaTotal=%d dataFree=[%s](%d) metaFree=[%s](%d) freelistPages=%s wal=%v walPages=%s",
		s.Root, s.MaxPages, s.DataEnd, s.MetaEnd, s.MetaTotal, reg(s.DataFree), s.DataAvail, reg(s.MetaFree), s.MetaAvail,
		ids(s.FreelistPages), wal, ids(s.WALPages))
}

// CheckPartition checks the ownership partition of all pages.
func CheckPartition(s *txfile.VerifSnapshot, m *MState, item int, coverage bool) *Violation {
	owner := map[txfile.PageID]string{}
	claim := func(id txfile.PageID, who string) *Violation {
		if id < 2 {
			return violationf("partition", item, "%s contains header page id %d", who, id)
		}
		if prev, ok := owner[id]; ok {
			return violationf("partition", item, "page %d is owned twice: %s and %s", id, prev, who)
		}
		owner[id] = who
		return nil
	}
	for h, p := range m.Pages {
		if v := claim(p.ID, fmt.Sprintf("live page (handle %d)", h)); v != nil {
			return v
		}
	}
	for _, id := range regionIDs(s.DataFree) {
		if v := claim(id, "data free list"); v != nil {
			return v
		}
	}
	metaFree := regionIDs(s.MetaFree)
	for _, id := range metaFree {
		if v := claim(id, "meta free list"); v != nil {
			return v
		}
	}
	metaUse := 0
	for _, id := range s.FreelistPages {
		if v := claim(id, "free list page"); v != nil {
			return v
		}
		metaUse++
	}
	for _, id := range s.WALPages {
		if v := claim(id, "overwrite mapping page"); v != nil {
			return v
		}
		metaUse++
	}
	live := m.IDSet()
	for k, w := range s.WAL {
		if v := claim(w, fmt.Sprintf("overwrite page of %d", k)); v != nil {
			return v
		}
		metaUse++
		if _, ok := live[k]; !ok {
			return violationf("partition", item, "overwrite mapping has an entry for page %d which is not live", k)
		}
	}
	if coverage && uint(len(metaFree)+metaUse) != s.MetaTotal {
		return violationf("partition-meta", item, "meta area: %d free + %d in use != metaTotal %d", len(metaFree), metaUse, s.MetaTotal)
	}
	if s.DataAvail != regionCount(s.DataFree) || s.MetaAvail != regionCount(s.MetaFree) {
		return violationf("partition-avail", item, "free list counters %d/%d do not match region lists %d/%d",
			s.DataAvail, s.MetaAvail, regionCount(s.DataFree), regionCount(s.MetaFree))
	}
	end := s.DataEnd
	if s.MetaEnd > end {
		end = s.MetaEnd
	}
	for id, who := range owner {
		if id >= end {
			return violationf("partition", item, "page %d (%s) lies beyond the end markers (data %d, meta %d)", id, who, s.DataEnd, s.MetaEnd)
		}
	}
	if coverage {
		for id := txfile.PageID(2); id < s.DataEnd; id++ {
			if _, ok := owner[id]; !ok {
				return violationf("leak", item, "page %d below the data end marker %d is neither live nor free nor used internally", id, s.DataEnd)
			}
		}
	}
	return nil
}

type resizeInfo struct {
	oldMax, newMax uint
	extentBefore   int64
	overflow       bool // a transaction enabled the overflow area since: the file may exceed the limit by design
}
