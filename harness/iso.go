package harness

import (
	"bytes"
	"encoding/json"
	"fmt"
	"runtime"
	"runtime/debug"
	"time"

	txfile "github.com/elastic/go-txfile"

	"verif/simdisk"
)

// IsoRound is one writer transaction with readers scheduled around it.
type IsoRound struct {
	Tx Tx `json:"tx"`
	// Readers begun before the transaction / after the k-th op (k = BeginAt[i] mod (len(ops)+1)).
	BeginAt []int `json:"begin_at"`
	// Touch plan: for every stage a list of (reader, pick) pairs encoded as reader*1000+pick.
	// stages: 0 after begin of each reader, 1 after the tx body, 2 after explicit flush,
	// 3 while the commit is parked, 4 after release (commit may wait for the readers)
	Touch [5][]int `json:"touch"`
	// FlushBeforeEnd: the writer calls Flush before ending (so that rollbacks also leave writes behind).
	FlushBeforeEnd bool `json:"flush"`
	// Gate: park the commit at the (GateSkip+1)-th call of kind GateKind (0 write, 1 sync).
	GateKind int `json:"gate_kind"`
	GateSkip int `json:"gate_skip"`
	// NewReaders: number of readers that call Begin while the commit is parked.
	NewReaders int `json:"new_readers"`
}

// IsoProgram is a generated snapshot isolation scenario.
type IsoProgram struct {
	Cfg    Config     `json:"cfg"`
	Prefix []Item     `json:"prefix"`
	Rounds []IsoRound `json:"rounds"`
}

func (p *IsoProgram) JSON() []byte {
	b, _ := json.Marshal(p)
	return b
}

type isoReader struct {
	id      int
	tx      *txfile.Tx
	snap    *MState
	touched map[int]bool
	pages   map[int]*txfile.Page
}

// read checks one page of the reader's snapshot.
func (rd *isoReader) read(h int, stage string) *Violation {
	mp, ok := rd.snap.Pages[h]
	if !ok || mp.Data == nil {
		return nil
	}
	pg := rd.pages[h]
	if pg == nil {
		var err error
		pg, err = rd.tx.Page(mp.ID)
		if err != nil {
			return violationf("iso-access", -1, "reader %d (%s): Page(%d) of its snapshot failed: %v", rd.id, stage, mp.ID, err)
		}
		rd.pages[h] = pg
	}
	b, err := pg.Bytes()
	if err != nil {
		return violationf("iso-access", -1, "reader %d (%s): Bytes of page %d failed: %v", rd.id, stage, mp.ID, err)
	}
	if !bytes.Equal(b, mp.Data) {
		first := "first touch"
		if rd.touched[h] {
			first = "re-read"
		}
		return violationf("iso-snapshot", -1, "reader %d (%s, %s): page %d reads %s, the state committed when it began has %s (first diff at byte %d)",
			rd.id, stage, first, mp.ID, Stamp(b), Stamp(mp.Data), firstDiff(b, mp.Data))
	}
	rd.touched[h] = true
	return nil
}

func (rd *isoReader) checkRoot(stage string) *Violation {
	if got := rd.tx.Root(); got != rd.snap.RootID {
		return violationf("iso-root", -1, "reader %d (%s): root %d, the state committed when it began has root %d", rd.id, stage, got, rd.snap.RootID)
	}
	return nil
}

// RunIso executes a snapshot isolation scenario.
func RunIso(p *IsoProgram) (v *Violation, counters map[string]int, nontrivial bool) {
	prog := &Program{Cfg: p.Cfg, Items: p.Prefix}
	r, v := NewRunner(prog, RunOpts{CheckContent: true, Drain: true, NoFinalClose: true, Concurrent: true})
	if v != nil {
		return v, nil, false
	}
	var readers []*isoReader
	var commitDone chan struct{} // closed when the asynchronous commit has returned
	closeReaders := func() {
		for _, rd := range readers {
			func() {
				defer func() { recover() }()
				rd.tx.Close()
			}()
		}
		readers = nil
	}
	defer func() {
		if x := recover(); x != nil {
			st := debug.Stack()
			v = violationf("panic", -1, "panic: %v at %s [%s]", x, panicSite(st), trimStack(st))
		}
		if v != nil {
			r.Disk.Release()
			closeReaders()
			if commitDone != nil {
				// let a commit that is still running finish before tearing down; if it
				// does not, leave file and goroutine behind (closing the File under a
				// running Commit would only add harness-made races to the report)
				select {
				case <-commitDone:
				case <-time.After(5 * time.Second):
					return
				}
			}
			r.cleanupAfterFailure()
		}
	}()
	for i := range prog.Items {
		if v := r.SafeRunItem(i, &prog.Items[i]); v != nil {
			return v, r.Counters, false
		}
	}
	// The asynchronous commit updates r.Counters: the scheduling goroutine keeps
	// its own map, merged when no commit is running.
	c := map[string]int{}
	merge := func() map[string]int {
		for k, n := range r.Counters {
			c[k] += n
		}
		r.Counters = map[string]int{}
		return c
	}
	nextReader := 0

	beginReader := func() (*isoReader, *Violation) {
		tx, err := r.F.BeginReadonly()
		if err != nil {
			return nil, violationf("begin", -1, "BeginReadonly failed: %v", err)
		}
		rd := &isoReader{id: nextReader, tx: tx, snap: r.C, touched: map[int]bool{}, pages: map[int]*txfile.Page{}}
		nextReader++
		readers = append(readers, rd)
		return rd, nil
	}
	touch := func(stage int, name string, plan []int) *Violation {
		for _, code := range plan {
			if len(readers) == 0 {
				return nil
			}
			rd := readers[(code/1000)%len(readers)]
			hs := rd.snap.Handles(func(h int, p MPage) bool { return p.Data != nil })
			if len(hs) == 0 {
				continue
			}
			h := hs[(code%1000)%len(hs)]
			if !rd.touched[h] && stage >= 2 {
				c["first-touch-after-writer-flush"]++
			}
			if v := rd.read(h, name); v != nil {
				return v
			}
			if v := rd.checkRoot(name); v != nil {
				return v
			}
		}
		return nil
	}

	for ri := range p.Rounds {
		round := &p.Rounds[ri]
		sOld := r.C
		// begin the writer
		opts := txfile.TxOptions{WALLimit: round.Tx.WALLimit, MetaAreaGrowPercentage: round.Tx.GrowPct}
		wtx, err := r.F.BeginWith(opts)
		if err != nil {
			return violationf("begin", ri, "Begin failed: %v", err), c, false
		}
		r.openTx = wtx
		t := &txRun{r: r, idx: 2000 + ri, tx: wtx, T: r.C.Clone(), local: map[int]*txPage{}, freed: map[int]MPage{}}
		t.snap0 = r.F.VerifState()
		nops := len(round.Tx.Ops)
		for k := 0; k <= nops; k++ {
			for _, at := range round.BeginAt {
				if at%(nops+1) == k {
					rd, v := beginReader()
					if v != nil {
						return v, c, false
					}
					_ = rd
					if v := touch(0, "right after Begin", round.Touch[0]); v != nil {
						return v, c, false
					}
				}
			}
			if k < nops {
				t.opIdx = k
				if v := t.op(&round.Tx.Ops[k]); v != nil {
					return v, c, false
				}
			}
		}
		if v := touch(1, "after the writer's operations", round.Touch[1]); v != nil {
			return v, c, false
		}
		if round.FlushBeforeEnd {
			if err := wtx.Flush(); err == nil {
				for _, lp := range t.local {
					if lp.dirty {
						lp.flushed = true
					}
				}
				c["writer-flushed"]++
			}
			// also after a failed Flush (no space): some pages may have been scheduled;
			// they must not be what the gate parks later
			r.F.VerifDrainWriter()
			if v := touch(2, "after the writer flushed its pages", round.Touch[2]); v != nil {
				return v, c, false
			}
		}
		overwrote := false
		for h := range t.local {
			if mp, ok := sOld.Pages[h]; ok && mp.Data != nil && t.local[h].dirty {
				overwrote = true
			}
		}
		for h := range t.freed {
			if _, ok := sOld.Pages[h]; ok {
				overwrote = true
			}
		}

		if round.Tx.End != EndCommit {
			var err error
			if round.Tx.End == EndRollback {
				err = wtx.Rollback()
			} else {
				err = wtx.Close()
			}
			r.openTx = nil
			if err != nil {
				return violationf("rollback", ri, "ending the writer failed: %v", err), c, false
			}
			c["writer-aborted"]++
			if v := touch(4, "after the writer rolled back", round.Touch[4]); v != nil {
				return v, c, false
			}
			if len(readers) > 0 && overwrote {
				c["reader-across-abort"]++
			}
			closeReaders()
			if v := r.Verify(); v != nil {
				return v, c, false
			}
			continue
		}

		// commit asynchronously, parked at a chosen disk call
		kind := simdisk.CallWrite
		if round.GateKind%2 == 1 {
			kind = simdisk.CallSync
		}
		parked := r.Disk.HoldNth(kind, round.GateSkip)
		type commitResult struct {
			v         *Violation
			committed bool
		}
		done := make(chan commitResult, 1)
		merge()
		commitsBefore := c["commit"]
		finished := make(chan struct{})
		commitDone = finished
		go func() {
			defer close(finished)
			var v *Violation
			ok := false
			func() {
				defer func() {
					if x := recover(); x != nil {
						st := debug.Stack()
						v = violationf("panic", ri, "panic in Commit: %v at %s [%s]", x, panicSite(st), trimStack(st))
					}
				}()
				before := r.Counters["commit"]
				v = t.commit()
				ok = r.Counters["commit"] > before
			}()
			done <- commitResult{v, ok}
		}()
		isParked := false
		var early *commitResult
		deadline := time.Now().Add(60 * time.Second)
	waitGate:
		for {
			select {
			case <-parked:
				isParked = true
				c["commit-parked"]++
				break waitGate
			case res := <-done:
				early = &res // commit finished before reaching the gate position
				break waitGate
			case <-time.After(200 * time.Microsecond):
			}
			// The commit has fewer disk calls than the gate position: it is (or will
			// be) waiting for the old readers. Proceed without parking.
			if ls := r.F.VerifLockState(); ls.PendingSet && ls.SharedCount > 0 {
				if q := r.F.VerifWriterQueue(); q.Scheduled == 0 && q.Syncs == 0 {
					c["commit-not-parked-waiting"]++
					break waitGate
				}
			}
			if time.Now().After(deadline) {
				return violationf("hang", ri, "commit neither reached the gate nor returned nor waits for readers"), c, false
			}
		}

		type beginResult struct {
			tx  *txfile.Tx
			err error
		}
		var newBegins []chan beginResult
		if isParked {
			// a commit that failed early (no space) may have returned already while
			// one of its page writes is what got parked
			select {
			case res := <-done:
				early = &res
				isParked = false
				r.Disk.Release()
			default:
			}
		}
		if isParked {
			if ls := r.F.VerifLockState(); !ls.PendingSet {
				select {
				case res := <-done:
					early = &res
					isParked = false
					r.Disk.Release()
				default:
					return violationf("iso-pending", ri, "commit is writing to disk, but the pending lock is not set (new readers could start)"), c, false
				}
			}
		}
		if isParked {
			if v := touch(3, "while the commit is in progress", round.Touch[3]); v != nil {
				return v, c, false
			}
			for i := 0; i < round.NewReaders; i++ {
				ch := make(chan beginResult, 1)
				newBegins = append(newBegins, ch)
				go func() {
					tx, err := r.F.BeginReadonly()
					ch <- beginResult{tx, err}
				}()
			}
			for k := 0; k < 5; k++ {
				runtime.Gosched()
			}
			// no new reader may get through while the commit is in progress
			for i, ch := range newBegins {
				select {
				case res := <-ch:
					if res.tx != nil {
						res.tx.Close()
					}
					return violationf("iso-new-reader", ri, "reader %d began while a commit was in progress (pending lock held)", i), c, false
				default:
				}
			}
			r.Disk.Release()
			// the commit may now be waiting for the old readers: they keep reading the old state
			for k := 0; k < 3; k++ {
				runtime.Gosched()
			}
			if len(readers) > 0 {
				select {
				case res := <-done:
					if res.committed {
						// commit succeeded although old readers are still open
						return violationf("iso-exclusive", ri, "Commit succeeded while %d read transactions begun before it were still open", len(readers)), c, false
					}
					early = &res // a failed commit does not have to wait for readers
				case <-time.After(2 * time.Millisecond):
				}
				if ls := r.F.VerifLockState(); ls.PendingSet && ls.SharedCount > 0 {
					c["commit-waited-for-readers"]++
				}
			}
			if v := touch(4, "after the commit wrote everything (it waits for this reader)", round.Touch[4]); v != nil {
				return v, c, false
			}
		} else {
			r.Disk.Release()
		}
		if len(readers) > 0 && overwrote {
			c["reader-across-commit"]++
		}
		closeReaders()
		var res commitResult
		if early != nil {
			res = *early
		} else {
			select {
			case res = <-done:
			case <-time.After(60 * time.Second):
				return violationf("hang", ri, "Commit did not return after all read transactions were closed"), c, false
			}
		}
		r.openTx = nil
		if res.v != nil {
			return res.v, c, false
		}
		merge()
		committed := c["commit"] > commitsBefore
		// readers that began during the commit see exactly the state after it
		for i, ch := range newBegins {
			select {
			case br := <-ch:
				if br.err != nil {
					return violationf("begin", ri, "BeginReadonly (during commit) failed: %v", br.err), c, false
				}
				rd := &isoReader{id: 100 + i, tx: br.tx, snap: r.C, touched: map[int]bool{}, pages: map[int]*txfile.Page{}}
				readers = append(readers, rd)
				c["reader-begun-during-commit"]++
			case <-time.After(60 * time.Second):
				return violationf("hang", ri, "BeginReadonly called during a commit did not return after the commit finished"), c, false
			}
		}
		for _, rd := range readers {
			hs := rd.snap.Handles(func(h int, p MPage) bool { return p.Data != nil })
			for i, h := range hs {
				if i >= 8 {
					break
				}
				if v := rd.read(h, "begun during the commit"); v != nil {
					return v, c, false
				}
			}
			if v := rd.checkRoot("begun during the commit"); v != nil {
				return v, c, false
			}
		}
		closeReaders()
		_ = committed
		if v := r.Verify(); v != nil {
			return v, c, false
		}
	}
	if v := r.Finish(); v != nil {
		return v, c, false
	}
	merge()
	nt := (c["reader-across-commit"] > 0 || c["reader-across-abort"] > 0) && c["first-touch-after-writer-flush"] > 0
	return nil, c, nt
}

func init() { _ = fmt.Sprintf }
