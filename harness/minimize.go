package harness

// HashBytes is FNV-1a over b.
func HashBytes(b []byte) uint64 { return hashBytes(b) }

// MinimizeProgram is a delta debugging pass over a file program: it removes
// items and ops and simplifies arguments as long as fails(p) stays true.
func MinimizeProgram(p *Program, fails func(*Program) bool, budget int) *Program {
	cur := p.Clone()
	tries := 0
	try := func(q *Program) bool {
		if tries >= budget {
			return false
		}
		tries++
		if fails(q) {
			cur = q
			return true
		}
		return false
	}

	for changed := true; changed && tries < budget; {
		changed = false
		// remove chunks of items
		for chunk := len(cur.Items) / 2; chunk >= 1; chunk /= 2 {
			for i := len(cur.Items) - chunk; i >= 0; i -= chunk {
				if i+chunk > len(cur.Items) {
					continue
				}
				q := cur.Clone()
				q.Items = append(q.Items[:i], q.Items[i+chunk:]...)
				if len(q.Items) == 0 {
					continue
				}
				if try(q) {
					changed = true
				}
			}
		}
		// remove ops
		for i := len(cur.Items) - 1; i >= 0; i-- {
			if i >= len(cur.Items) || cur.Items[i].Tx == nil {
				continue
			}
			for j := len(cur.Items[i].Tx.Ops) - 1; j >= 0; j-- {
				if j >= len(cur.Items[i].Tx.Ops) {
					continue
				}
				q := cur.Clone()
				ops := q.Items[i].Tx.Ops
				q.Items[i].Tx.Ops = append(ops[:j], ops[j+1:]...)
				if try(q) {
					changed = true
				}
			}
		}
		// simplify transactions and ops
		for i := range cur.Items {
			tx := cur.Items[i].Tx
			if tx == nil {
				continue
			}
			if tx.Stall || tx.Overflow || tx.WALLimit != 0 || tx.GrowPct != 0 {
				for _, f := range []func(*Tx){
					func(t *Tx) { t.Stall = false },
					func(t *Tx) { t.Overflow = false },
					func(t *Tx) { t.WALLimit = 0 },
					func(t *Tx) { t.GrowPct = 0 },
				} {
					q := cur.Clone()
					f(q.Items[i].Tx)
					if string(q.JSON()) != string(cur.JSON()) && try(q) {
						changed = true
					}
				}
			}
			for j := range tx.Ops {
				for _, f := range []func(*Op){
					func(o *Op) { o.A = 0 },
					func(o *Op) { o.A = o.A / 2 },
					func(o *Op) { o.B = 0 },
					func(o *Op) { o.B = o.B / 2 },
					func(o *Op) { o.C = 1 },
					func(o *Op) { o.D = 0 },
					func(o *Op) {
						if o.K == OpWriteMany {
							o.K, o.B = OpWrite, 0
						}
					},
				} {
					if j >= len(cur.Items[i].Tx.Ops) {
						break
					}
					q := cur.Clone()
					f(&q.Items[i].Tx.Ops[j])
					if string(q.JSON()) != string(cur.JSON()) && try(q) {
						changed = true
					}
				}
			}
		}
		// simplify config
		for _, f := range []func(*Config){
			func(c *Config) { c.Prealloc = false },
			func(c *Config) { c.SyncFull = false },
			func(c *Config) { c.InitMeta = 0 },
			func(c *Config) {
				for _, it := range cur.Items {
					if it.Reopen != nil && it.Reopen.Mode == 2 {
						return // sizes given in pages: keep the page size
					}
				}
				if c.PageSize > 1024 && (c.MaxPages == 0 || uint64(c.MaxPages)*1024 >= 65536) {
					c.PageSize = 1024
				}
			},
		} {
			q := cur.Clone()
			f(&q.Cfg)
			if string(q.JSON()) != string(cur.JSON()) && try(q) {
				changed = true
			}
		}
	}
	return cur
}

// MinimizeQProgram is the delta debugging pass for queue programs.
func MinimizeQProgram(p *QProgram, fails func(*QProgram) bool, budget int) *QProgram {
	cur := p.Clone()
	tries := 0
	try := func(q *QProgram) bool {
		if tries >= budget {
			return false
		}
		tries++
		if fails(q) {
			cur = q
			return true
		}
		return false
	}
	for changed := true; changed && tries < budget; {
		changed = false
		for chunk := len(cur.Steps) / 2; chunk >= 1; chunk /= 2 {
			for i := len(cur.Steps) - chunk; i >= 0; i -= chunk {
				if i+chunk > len(cur.Steps) || len(cur.Steps)-chunk < 1 {
					continue
				}
				q := cur.Clone()
				q.Steps = append(q.Steps[:i], q.Steps[i+chunk:]...)
				if try(q) {
					changed = true
				}
			}
		}
		for i := range cur.Steps {
			for _, f := range []func(*QStep){
				func(s *QStep) { s.A = s.A / 2 },
				func(s *QStep) { s.A = s.A - 1 },
				func(s *QStep) { s.A = 1 },
			} {
				if i >= len(cur.Steps) || cur.Steps[i].A <= 1 {
					break
				}
				q := cur.Clone()
				f(&q.Steps[i])
				if q.Steps[i].A >= 1 && q.Steps[i].A != cur.Steps[i].A && try(q) {
					changed = true
				}
			}
		}
		for _, f := range []func(*QConfig){
			func(c *QConfig) { c.InitMeta = 0 },
			func(c *QConfig) { c.WriteBuffer = 0 },
		} {
			q := cur.Clone()
			f(&q.Cfg)
			if string(q.JSON()) != string(cur.JSON()) && try(q) {
				changed = true
			}
		}
	}
	return cur
}
