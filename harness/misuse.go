package harness

import (
	"bytes"
	"fmt"

	txfile "github.com/elastic/go-txfile"
)

// cellResult is the outcome of one misuse cell.
type cellCtx struct {
	r     *Runner
	item  int
	cells int
}

// call executes fn with panic recovery.
func (c *cellCtx) call(name string, fn func() error) (err error, v *Violation) {
	defer func() {
		if x := recover(); x != nil {
			v = violationf("misuse-panic", c.item, "%s paniced: %v", name, x)
		}
	}()
	c.cells++
	c.r.count("misuse-cell")
	return fn(), nil
}

// expectKind demands a non-nil error whose kind is one of kinds.
func (c *cellCtx) expectKind(name string, fn func() error, kinds ...string) *Violation {
	err, v := c.call(name, fn)
	if v != nil {
		return v
	}
	if err == nil {
		return violationf("misuse-accepted", c.item, "%s returned no error, expected %v", name, kinds)
	}
	got := ErrKindName(err)
	for _, k := range kinds {
		if got == k {
			return nil
		}
	}
	return violationf("misuse-kind", c.item, "%s returned error kind %s (%v), documented kind is %v", name, got, err, kinds)
}

// expectNoPanic only demands that fn returns.
func (c *cellCtx) expectNoPanic(name string, fn func()) *Violation {
	_, v := c.call(name, func() error { fn(); return nil })
	return v
}

func (c *cellCtx) expectNil(name string, fn func() error) *Violation {
	err, v := c.call(name, fn)
	if v != nil {
		return v
	}
	if err != nil {
		return violationf("misuse-error", c.item, "%s returned %v, documented to succeed", name, err)
	}
	return nil
}

// MisuseMatrix runs every cell of the Tx/Page method x receiver state matrix
// on the current committed state, verifying after each group that the
// committed state did not change.
func (r *Runner) MisuseMatrix() *Violation {
	c := &cellCtx{r: r, item: r.curItem}
	ps := int(r.P.Cfg.PageSize)

	anyLive := func() (txfile.PageID, []byte, bool) {
		hs := r.C.Handles(func(h int, p MPage) bool { return p.Data != nil })
		if len(hs) == 0 {
			return 0, nil, false
		}
		p := r.C.Pages[hs[0]]
		return p.ID, p.Data, true
	}

	// ---- Group A: finished transactions ----
	for _, readonly := range []bool{false, true} {
		for _, end := range []string{"commit", "rollback", "close", "failed-commit"} {
			if readonly && end == "failed-commit" {
				continue
			}
			var tx *txfile.Tx
			var err error
			if readonly {
				tx, err = r.F.BeginReadonly()
			} else {
				tx, err = r.F.Begin()
			}
			if err != nil {
				return violationf("begin", c.item, "Begin failed: %v", err)
			}
			r.openTx = tx
			state := fmt.Sprintf("%s tx (readonly=%v)", end, readonly)

			liveID, _, haveLive := anyLive()
			var livePg, newPg *txfile.Page
			if haveLive {
				livePg, err = tx.Page(liveID)
				if err != nil {
					return violationf("page-access", c.item, "Page(%d) failed: %v", liveID, err)
				}
				if _, err := livePg.Bytes(); err != nil {
					return violationf("page-access", c.item, "Bytes of page %d failed: %v", liveID, err)
				}
			}
			T := r.C.Clone()
			if !readonly {
				// a small modification, so that commit/rollback have something to do
				newPg, err = tx.Alloc()
				if err == nil {
					content := Content(900000+c.cells, ps)
					if err := newPg.SetBytes(append([]byte(nil), content...)); err != nil {
						return violationf("write-error", c.item, "SetBytes on new page failed: %v", err)
					}
					h := r.nextHandle
					r.nextHandle++
					T.Pages[h] = MPage{ID: newPg.ID(), Data: content}
				} else if !IsOOM(err) || !r.bounded() {
					return violationf("alloc-error", c.item, "Alloc failed: %v", err)
				}
				if end == "failed-commit" {
					if !r.bounded() {
						tx.Close()
						r.openTx = nil
						continue
					}
					// exhaust the file and overwrite committed pages, so the commit has no room
					s := r.F.VerifState()
					avail := int(s.DataAvail)
					if uint(s.DataEnd) < s.MaxPages {
						avail += int(s.MaxPages) - int(s.DataEnd)
					}
					if avail > 0 {
						if _, err := tx.AllocN(avail); err != nil {
							tx.Close()
							r.openTx = nil
							continue
						}
					}
					n := 0
					for _, h := range r.C.Handles(nil) {
						pg, err := tx.Page(r.C.Pages[h].ID)
						if err != nil {
							break
						}
						if pg.SetBytes(Content(800000+h, ps)) != nil {
							break
						}
						n++
						if n > 40 {
							break
						}
					}
				}
			}

			committed := false
			switch end {
			case "commit", "failed-commit":
				err = tx.Commit()
				if end == "failed-commit" {
					if err == nil {
						// the commit found room after all: counts as a plain commit
						r.count("misuse-failed-commit-succeeded")
						committed = true
						// model: pages written above
						for _, h := range r.C.Handles(nil) {
							_ = h
						}
						// we cannot easily know how many overwrites happened: rebuild from the file
						r.openTx = nil
						return r.resyncAfterUnexpectedCommit(T, ps)
					}
					r.count("misuse-failed-commit")
				} else if err != nil {
					if readonly || !r.bounded() {
						return violationf("commit-error", c.item, "Commit failed: %v", err)
					}
					// no room on a bounded file: acts as failed commit
				} else {
					committed = !readonly
				}
			case "rollback":
				if err := tx.Rollback(); err != nil {
					return violationf("rollback", c.item, "Rollback failed: %v", err)
				}
			case "close":
				if err := tx.Close(); err != nil {
					return violationf("txclose", c.item, "Close failed: %v", err)
				}
			}
			r.openTx = nil
			if committed {
				r.C = T
				r.count("commit")
			}

			finKinds := []string{"TxFinished"}
			wrKinds := []string{"TxFinished"}
			if readonly {
				wrKinds = []string{"TxFinished", "TxReadOnly"}
			}
			checks := []*Violation{
				c.expectKind("Commit on "+state, tx.Commit, finKinds...),
				c.expectKind("Rollback on "+state, tx.Rollback, finKinds...),
				c.expectNil("Close on "+state, tx.Close),
				c.expectKind("Flush on "+state, tx.Flush, wrKinds...),
				c.expectKind("CheckpointWAL on "+state, tx.CheckpointWAL, wrKinds...),
				c.expectKind("Alloc on "+state, func() error { _, err := tx.Alloc(); return err }, wrKinds...),
				c.expectKind("AllocN on "+state, func() error { _, err := tx.AllocN(2); return err }, wrKinds...),
				c.expectNoPanic("Root/Active/Readonly/Writable on "+state, func() {
					tx.Root()
					tx.Readonly()
					tx.Writable()
				}),
				c.expectNoPanic("PageSize on "+state, func() { tx.PageSize() }),
			}
			if haveLive {
				checks = append(checks,
					c.expectKind("Page(live id) on "+state, func() error { _, err := tx.Page(liveID); return err }, finKinds...),
					c.expectKind("Page.Bytes on page of "+state, func() error { _, err := livePg.Bytes(); return err }, finKinds...),
					c.expectKind("Page.Load on page of "+state, livePg.Load, wrKinds...),
					c.expectKind("Page.SetBytes on page of "+state, func() error { return livePg.SetBytes(make([]byte, ps)) }, wrKinds...),
					c.expectKind("Page.MarkDirty on page of "+state, livePg.MarkDirty, wrKinds...),
					c.expectKind("Page.Free on page of "+state, livePg.Free, wrKinds...),
					c.expectKind("Page.Flush on page of "+state, livePg.Flush, wrKinds...),
					c.expectNoPanic("Page.ID/Dirty/Readonly/Writable on page of "+state, func() {
						livePg.ID()
						livePg.Dirty()
						livePg.Readonly()
						livePg.Writable()
					}),
				)
			}
			if r.C.RootID >= 2 {
				checks = append(checks, c.expectKind("RootPage on "+state, func() error { _, err := tx.RootPage(); return err }, finKinds...))
			}
			if newPg != nil {
				checks = append(checks,
					c.expectKind("Page.SetBytes on new page of "+state, func() error { return newPg.SetBytes(make([]byte, ps)) }, wrKinds...),
					c.expectKind("Page.Bytes on new page of "+state, func() error { _, err := newPg.Bytes(); return err }, finKinds...),
				)
			}
			for _, v := range checks {
				if v != nil {
					return v
				}
			}
			if tx.Active() {
				return violationf("misuse-state", c.item, "Active() reports true on %s", state)
			}
			if v := r.Verify(); v != nil {
				v.Msg = "after misuse of " + state + ": " + v.Msg
				return v
			}
			if v := r.checkLockIdle(); v != nil {
				return v
			}
		}
	}

	// ---- Group B: active read-only transaction ----
	{
		tx, err := r.F.BeginReadonly()
		if err != nil {
			return violationf("begin", c.item, "BeginReadonly failed: %v", err)
		}
		r.openTx = tx
		ro := []string{"TxReadOnly"}
		checks := []*Violation{
			c.expectKind("Alloc in read-only tx", func() error { _, err := tx.Alloc(); return err }, ro...),
			c.expectKind("AllocN in read-only tx", func() error { _, err := tx.AllocN(3); return err }, ro...),
			c.expectKind("Flush in read-only tx", tx.Flush, ro...),
			c.expectKind("CheckpointWAL in read-only tx", tx.CheckpointWAL, ro...),
			c.expectKind("Page(0) in read-only tx", func() error { _, err := tx.Page(0); return err }, "InvalidPageID"),
			c.expectKind("Page(1) in read-only tx", func() error { _, err := tx.Page(1); return err }, "InvalidPageID"),
			c.expectKind("Page(end) in read-only tx", func() error { _, err := tx.Page(r.F.VerifState().DataEnd); return err }, "InvalidPageID"),
			c.expectKind("Page(huge) in read-only tx", func() error { _, err := tx.Page(1 << 40); return err }, "InvalidPageID"),
		}
		if id, data, ok := anyLive(); ok {
			pg, err := tx.Page(id)
			if err != nil {
				return violationf("page-access", c.item, "Page(%d) failed: %v", id, err)
			}
			checks = append(checks,
				c.expectKind("Page.SetBytes in read-only tx", func() error { return pg.SetBytes(make([]byte, ps)) }, ro...),
				c.expectKind("Page.SetBytes(partial) in read-only tx", func() error { return pg.SetBytes(make([]byte, 10)) }, ro...),
				c.expectKind("Page.Load in read-only tx", pg.Load, ro...),
				c.expectKind("Page.MarkDirty in read-only tx", pg.MarkDirty, ro...),
				c.expectKind("Page.Free in read-only tx", pg.Free, ro...),
				c.expectKind("Page.Flush in read-only tx", pg.Flush, ro...),
			)
			for _, v := range checks {
				if v != nil {
					tx.Close()
					return v
				}
			}
			checks = nil
			b, err := pg.Bytes()
			if err != nil || !bytes.Equal(b, data) {
				tx.Close()
				return violationf("content-mismatch", c.item, "read-only tx: page %d changed after rejected writes (err=%v)", id, err)
			}
		}
		for _, v := range checks {
			if v != nil {
				tx.Close()
				return v
			}
		}
		if err := tx.Close(); err != nil {
			return violationf("txclose", c.item, "Close of read-only tx failed: %v", err)
		}
		r.openTx = nil
		if v := r.Verify(); v != nil {
			return v
		}
	}

	// ---- Group C: page states inside an active write transaction ----
	{
		tx, err := r.F.Begin()
		if err != nil {
			return violationf("begin", c.item, "Begin failed: %v", err)
		}
		r.openTx = tx
		T := r.C.Clone()
		fail := func(v *Violation) *Violation {
			tx.Close()
			r.openTx = nil
			return v
		}
		inv := []string{"InvalidOp"}
		end := r.F.VerifState().DataEnd
		for _, v := range []*Violation{
			c.expectKind("Page(0) in write tx", func() error { _, err := tx.Page(0); return err }, "InvalidPageID"),
			c.expectKind("Page(1) in write tx", func() error { _, err := tx.Page(1); return err }, "InvalidPageID"),
			c.expectKind("Page(end marker) in write tx", func() error { _, err := tx.Page(end); return err }, "InvalidPageID"),
			c.expectKind("Page(end marker+7) in write tx", func() error { _, err := tx.Page(end + 7); return err }, "InvalidPageID"),
			c.expectNil("AllocN(0)", func() error { _, err := tx.AllocN(0); return err }),
			c.expectNil("AllocN(-3)", func() error { _, err := tx.AllocN(-3); return err }),
		} {
			if v != nil {
				return fail(v)
			}
		}

		var loadedFlushed *txfile.Page
		pages, err := tx.AllocN(4)
		if err == nil {
			// (the page that gets freed is not the last one allocated: freeing the last new page just
			// lowers the end marker, a page in the middle has to be remembered as freed)
			fresh, toFlush, toFree, extra := pages[0], pages[1], pages[2], pages[3]
			hFresh, hFlush := r.nextHandle, r.nextHandle+1
			T.Pages[r.nextHandle+3] = MPage{ID: extra.ID()}
			r.nextHandle += 4
			T.Pages[hFresh] = MPage{ID: fresh.ID()}
			// new page without contents
			if v := c.expectKind("Bytes of fresh page without contents", func() error { _, err := fresh.Bytes(); return err }, inv...); v != nil {
				return fail(v)
			}
			if v := c.expectKind("SetBytes(oversize)", func() error { return fresh.SetBytes(make([]byte, ps+1)) }, "InvalidParam"); v != nil {
				return fail(v)
			}
			// the rejected call must not have changed the page: still no contents, not dirty
			if v := c.expectKind("Bytes of fresh page after a rejected oversize SetBytes", func() error { _, err := fresh.Bytes(); return err }, inv...); v != nil {
				return fail(v)
			}
			if fresh.Dirty() {
				return fail(violationf("misuse-state", c.item, "fresh page is marked dirty after a rejected oversize SetBytes"))
			}
			// dirty page
			cont := Content(700001, ps)
			if err := toFlush.SetBytes(append([]byte(nil), cont...)); err != nil {
				return fail(violationf("write-error", c.item, "SetBytes failed: %v", err))
			}
			T.Pages[hFlush] = MPage{ID: toFlush.ID(), Data: cont}
			if v := c.expectKind("SetBytes(oversize) on dirty page", func() error { return toFlush.SetBytes(make([]byte, 2*ps)) }, "InvalidParam"); v != nil {
				return fail(v)
			}
			if v := c.expectKind("Free of dirty page", toFlush.Free, inv...); v != nil {
				return fail(v)
			}
			if !toFlush.Dirty() {
				return fail(violationf("misuse-state", c.item, "dirty page is no longer dirty after rejected calls"))
			}
			if b, err := toFlush.Bytes(); err != nil || !bytes.Equal(b, cont) {
				return fail(violationf("misuse-state", c.item, "dirty page changed after rejected Free (err=%v)", err))
			}
			// flushed page
			if err := toFlush.Flush(); err != nil {
				return fail(violationf("flush-error", c.item, "Flush failed: %v", err))
			}
			for _, v := range []*Violation{
				c.expectKind("SetBytes on flushed page", func() error { return toFlush.SetBytes(make([]byte, ps)) }, inv...),
				c.expectKind("SetBytes(partial) on flushed page", func() error { return toFlush.SetBytes(make([]byte, 8)) }, inv...),
				c.expectKind("MarkDirty on flushed page", toFlush.MarkDirty, inv...),
				c.expectKind("Load on flushed page", toFlush.Load, inv...),
				c.expectKind("Free on flushed page", toFlush.Free, inv...),
			} {
				if v != nil {
					return fail(v)
				}
			}
			if b, err := toFlush.Bytes(); err != nil || !bytes.Equal(b, cont) {
				return fail(violationf("misuse-state", c.item, "flushed page changed after rejected writes (err=%v)", err))
			}
			// a reader that begins while this transaction holds uncommitted (and partly flushed)
			// allocations beyond the committed end of the data area: those ids are out of range for it
			if rtx, err := r.F.BeginReadonly(); err != nil {
				return fail(violationf("begin", c.item, "BeginReadonly during a write transaction failed: %v", err))
			} else {
				var rv *Violation
				for _, pg := range pages {
					id := pg.ID()
					if id < end {
						continue
					}
					r.count("misuse-reader-probes-uncommitted-id")
					if v := c.expectKind(fmt.Sprintf("Page(%d) in a reader begun while a write tx has allocated that id beyond the committed end marker %d", id, end),
						func() error { _, err := rtx.Page(id); return err }, "InvalidPageID"); v != nil && rv == nil {
						rv = v
					}
				}
				rtx.Close()
				if rv != nil {
					return fail(rv)
				}
			}
			// a page whose private buffer exists already (Load, edit, MarkDirty) and that is flushed then:
			// the guards must not be skipped because the buffer is cached
			if err := extra.Load(); err != nil {
				return fail(violationf("write-error", c.item, "Load of a new page failed: %v", err))
			}
			cont2 := Content(700002, ps)
			if b, err := extra.Bytes(); err != nil || len(b) != ps {
				return fail(violationf("write-error", c.item, "Bytes after Load failed: %v", err))
			} else {
				copy(b, cont2)
			}
			if err := extra.MarkDirty(); err != nil {
				return fail(violationf("write-error", c.item, "MarkDirty failed: %v", err))
			}
			if err := extra.Flush(); err != nil {
				return fail(violationf("flush-error", c.item, "Flush failed: %v", err))
			}
			T.Pages[hFresh+3] = MPage{ID: extra.ID(), Data: cont2}
			loadedFlushed = extra
			for _, v := range []*Violation{
				c.expectKind("Load on a flushed page that had been loaded before", extra.Load, inv...),
				c.expectKind("MarkDirty on a flushed page that had been loaded before", extra.MarkDirty, inv...),
				c.expectKind("SetBytes(partial) on a flushed page that had been loaded before", func() error { return extra.SetBytes(make([]byte, 8)) }, inv...),
			} {
				if v != nil {
					return fail(v)
				}
			}
			// freed page
			freedID := toFree.ID()
			if err := toFree.Free(); err != nil {
				return fail(violationf("free-error", c.item, "Free failed: %v", err))
			}
			for _, v := range []*Violation{
				c.expectKind("Page(id) of page freed in this tx", func() error { _, err := tx.Page(freedID); return err }, "InvalidOp", "InvalidPageID"),
				c.expectKind("SetBytes on freed page", func() error { return toFree.SetBytes(make([]byte, ps)) }, inv...),
				c.expectKind("Load on freed page", toFree.Load, inv...),
				c.expectKind("MarkDirty on freed page", toFree.MarkDirty, inv...),
				c.expectKind("Free on freed page", toFree.Free, inv...),
				c.expectKind("Flush on freed page", toFree.Flush, inv...),
			} {
				if v != nil {
					return fail(v)
				}
			}
		} else if !IsOOM(err) || !r.bounded() {
			return fail(violationf("alloc-error", c.item, "AllocN(4) failed: %v", err))
		}

		// a committed page that is freed in this transaction
		if hs := r.C.Handles(func(h int, p MPage) bool { return true }); len(hs) > 0 {
			h := hs[len(hs)-1]
			mp := r.C.Pages[h]
			pg, err := tx.Page(mp.ID)
			if err != nil {
				return fail(violationf("page-access", c.item, "Page(%d) failed: %v", mp.ID, err))
			}
			if err := pg.Free(); err != nil {
				return fail(violationf("free-error", c.item, "Free failed: %v", err))
			}
			delete(T.Pages, h)
			if T.Root == h {
				T.Root = -1
			}
			for _, v := range []*Violation{
				c.expectKind("Page(id) of committed page freed in this tx", func() error { _, err := tx.Page(mp.ID); return err }, "InvalidOp"),
				c.expectKind("SetBytes on freed committed page", func() error { return pg.SetBytes(make([]byte, ps)) }, inv...),
				c.expectKind("Free on freed committed page", pg.Free, inv...),
			} {
				if v != nil {
					return fail(v)
				}
			}
		}

		// the running transaction continues and commits exactly its model state
		err = tx.Commit()
		r.openTx = nil
		if loadedFlushed != nil {
			for _, v := range []*Violation{
				c.expectKind("Load on a page (loaded before) of a finished transaction", loadedFlushed.Load, "TxFinished"),
				c.expectKind("SetBytes on a page (loaded before) of a finished transaction", func() error { return loadedFlushed.SetBytes(make([]byte, 8)) }, "TxFinished"),
			} {
				if v != nil {
					return v
				}
			}
		}
		if err != nil {
			if !r.bounded() {
				return violationf("commit-error", c.item, "Commit after misuse cells failed: %v", err)
			}
			r.count("commit-failed")
		} else {
			r.C = T
			r.count("commit")
		}
		if v := r.Verify(); v != nil {
			v.Msg = "after misuse cells inside a write transaction: " + v.Msg
			return v
		}
	}
	if v := r.checkLockIdle(); v != nil {
		return v
	}
	r.Counters["misuse-matrix"]++
	return nil
}

// resyncAfterUnexpectedCommit handles the rare case that the "failed commit"
// cell found enough room: the model is rebuilt from what the transaction wrote.
func (r *Runner) resyncAfterUnexpectedCommit(T *MState, ps int) *Violation {
	// overwritten pages carry Content(800000+h); accept either old or new content per page
	tx, err := r.F.BeginReadonly()
	if err != nil {
		return violationf("begin", r.curItem, "BeginReadonly failed: %v", err)
	}
	defer tx.Close()
	for h, p := range T.Pages {
		if p.Data == nil {
			continue
		}
		pg, err := tx.Page(p.ID)
		if err != nil {
			return violationf("content-access", r.curItem, "Page(%d) failed: %v", p.ID, err)
		}
		b, err := pg.Bytes()
		if err != nil {
			return violationf("content-access", r.curItem, "Bytes(%d) failed: %v", p.ID, err)
		}
		alt := Content(800000+h, ps)
		switch {
		case bytes.Equal(b, p.Data):
		case bytes.Equal(b, alt):
			T.Pages[h] = MPage{ID: p.ID, Data: alt}
		default:
			return violationf("content-mismatch", r.curItem, "page %d reads %s after commit", p.ID, Stamp(b))
		}
	}
	r.C = T
	return nil
}
