package harness

import (
	"fmt"
	"sort"

	txfile "github.com/elastic/go-txfile"
)

// MPage is the model of a live page. Data is nil if the page has been
// allocated but never written (its content is undefined and never read).
// Data slices are immutable by convention (always replaced, never modified).
type MPage struct {
	ID   txfile.PageID
	Data []byte
}

// MState is the reference model of a committed file state.
type MState struct {
	Pages map[int]MPage // by handle
	Root  int           // handle of root page, -1 if none
	// RootID is kept separately as the root is just an id for the file.
	RootID txfile.PageID
}

func NewMState() *MState {
	return &MState{Pages: map[int]MPage{}, Root: -1}
}

func (s *MState) Clone() *MState {
	c := &MState{Pages: make(map[int]MPage, len(s.Pages)+4), Root: s.Root, RootID: s.RootID}
	for h, p := range s.Pages {
		c.Pages[h] = p
	}
	return c
}

// Handles returns the sorted handles satisfying pred.
func (s *MState) Handles(pred func(h int, p MPage) bool) []int {
	out := make([]int, 0, len(s.Pages))
	for h, p := range s.Pages {
		if pred == nil || pred(h, p) {
			out = append(out, h)
		}
	}
	sort.Ints(out)
	return out
}

// IDSet returns the set of live page ids.
func (s *MState) IDSet() map[txfile.PageID]int {
	m := make(map[txfile.PageID]int, len(s.Pages))
	for h, p := range s.Pages {
		m[p.ID] = h
	}
	return m
}

// Content builds the reproducible page content for a write with the given
// seed: a readable stamp followed by a pseudo random stream.
func Content(seed int, pageSize int) []byte {
	b := make([]byte, pageSize)
	stamp := fmt.Sprintf("s%d|", seed)
	n := copy(b, stamp)
	x := uint64(seed)*0x9E3779B97F4A7C15 + 0x1234567
	for i := n; i < pageSize; i++ {
		x ^= x << 13
		x ^= x >> 7
		x ^= x << 17
		b[i] = byte(x)
	}
	return b
}

// Stamp extracts the readable stamp of a page content for messages.
func Stamp(b []byte) string {
	for i := 0; i < len(b) && i < 24; i++ {
		if b[i] == '|' {
			return string(b[:i])
		}
		if b[i] < 0x20 || b[i] > 0x7e {
			break
		}
	}
	if len(b) >= 4 {
		return fmt.Sprintf("raw:%x", b[:4])
	}
	return "raw"
}

func firstDiff(a, b []byte) int {
	n := len(a)
	if len(b) < n {
		n = len(b)
	}
	for i := 0; i < n; i++ {
		if a[i] != b[i] {
			return i
		}
	}
	if len(a) != len(b) {
		return n
	}
	return -1
}

type splitmix struct{ x uint64 }

func (s *splitmix) next() uint64 {
	s.x += 0x9E3779B97F4A7C15
	z := s.x
	z = (z ^ (z >> 30)) * 0xBF58476D1CE4E5B9
	z = (z ^ (z >> 27)) * 0x94D049BB133111EB
	return z ^ (z >> 31)
}

// NewRand returns a deterministic pseudo random source derived from a
// generated seed (the seed itself is drawn through the PBT library).
func NewRand(seed uint64) func() uint64 {
	s := &splitmix{x: seed}
	return s.next
}
