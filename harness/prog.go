// Package harness contains programs-as-data, reference models, interpreters
// and oracles used by the checks.
package harness

import (
	"encoding/json"
	"fmt"
	"hash/fnv"
	"os"
)

// Config describes how the file under test is created.
type Config struct {
	PageSize uint32 `json:"ps"`
	MaxPages uint   `json:"max,omitempty"` // 0 = unbounded
	InitMeta uint32 `json:"meta,omitempty"`
	Prealloc bool   `json:"prealloc,omitempty"`
	SyncFull bool   `json:"syncfull,omitempty"`
	SyncNone bool   `json:"syncnone,omitempty"` // Options.Sync = SyncNone (never in crash checks)
	// MaxExtra: bytes added to the max size option so that it is not a multiple of the page size
	// (bounded files only; the limit in pages is still MaxPages: a partial page does not count)
	MaxExtra uint32 `json:"maxextra,omitempty"`
}

func (c Config) MaxSize() uint64 {
	if c.MaxPages == 0 {
		return 0
	}
	return uint64(c.MaxPages)*uint64(c.PageSize) + uint64(c.MaxExtra%c.PageSize)
}

// Op is an operation inside a transaction. Small integers only; pages are
// picked by position in the sorted list of eligible handles (A mod len).
type Op struct {
	K string `json:"k"`
	A int    `json:"a,omitempty"`
	B int    `json:"b,omitempty"`
	C int    `json:"c,omitempty"`
	D int    `json:"d,omitempty"`
}

// Transaction op kinds.
const (
	OpAlloc      = "alloc"      // A = n
	OpWrite      = "write"      // A = pick, B = mode (0 full,1 partial,2 load+edit), C = seed, D = len param
	OpWriteMany  = "writemany"  // A = start pick, B = count, C = seed; full overwrites of committed pages
	OpRead       = "read"       // A = pick
	OpLoad       = "load"       // A = pick; Page.Load() without modifying the page (no MarkDirty)
	OpFree       = "free"       // A = pick; B = 1: pick counted from the most recently allocated page
	OpFreeMany   = "freemany"   // A = start pick, B = count, C = stride
	OpFlushPage  = "flushpage"  // A = pick
	OpFlushTx    = "flush"      //
	OpCheckpoint = "checkpoint" //
	OpSetRoot    = "setroot"    // A = pick, B = 1 -> clear root
	OpFill       = "fill"       // allocate everything that is left minus A pages (bounded files)
	OpMisuse     = "misuse"     // C15: A = cell selector
)

// Tx is a write transaction.
type Tx struct {
	WALLimit uint   `json:"wal,omitempty"`
	GrowPct  int    `json:"grow,omitempty"`
	Overflow bool   `json:"overflow,omitempty"`
	Stall    bool   `json:"stall,omitempty"` // park the background writer while this tx runs
	Ops      []Op   `json:"ops"`
	End      string `json:"end"` // commit | rollback | close
}

const (
	EndCommit   = "commit"
	EndRollback = "rollback"
	EndClose    = "close"
)

// Reopen closes and reopens the file.
type Reopen struct {
	// Mode: 0 = zero options, 1 = same options as creation,
	// 2 = FlagUpdMaxSize with NewMax pages (0 = unbounded),
	// 3 = max size option of NewMax pages WITHOUT FlagUpdMaxSize (in-memory limit for an unbounded file, ignored by a bounded one)
	Mode     int  `json:"mode,omitempty"`
	NewMax   uint `json:"newmax,omitempty"`
	Prealloc bool `json:"prealloc,omitempty"`
}

// Item is a top level program element.
type Item struct {
	Tx     *Tx     `json:"tx,omitempty"`
	Reopen *Reopen `json:"reopen,omitempty"`
	// Probe: capacity probe (allocate until failure in a rolled back tx)
	Probe bool `json:"probe,omitempty"`
	// Misuse: run the complete misuse matrix (C15) on the current state.
	Misuse bool `json:"misuse,omitempty"`
	// Tag marks items for twin runs: "T" items are removed in the twin.
	Tag string `json:"tag,omitempty"`
}

// Program is a generated test case for the file layer.
type Program struct {
	Cfg   Config `json:"cfg"`
	Items []Item `json:"items"`
	// Fault, if set, is the one fault plan to run (C08 replays); otherwise plans are drawn from Aux.
	Fault *FaultSpec `json:"fault,omitempty"`
	// Aux carries check specific integers (e.g. a seed for crash subset sampling).
	Aux []uint64 `json:"aux,omitempty"`
}

func (p *Program) JSON() []byte {
	b, err := json.Marshal(p)
	if err != nil {
		panic(err)
	}
	return b
}

func (p *Program) Hash() uint64 {
	h := fnv.New64a()
	h.Write(p.JSON())
	return h.Sum64()
}

func (p *Program) Clone() *Program {
	var q Program
	if err := json.Unmarshal(p.JSON(), &q); err != nil {
		panic(err)
	}
	return &q
}

// NumTx counts transaction items.
func (p *Program) NumTx() int {
	n := 0
	for _, it := range p.Items {
		if it.Tx != nil {
			n++
		}
	}
	return n
}

// FaultSpec is a serialisable simdisk fault plan.
type FaultSpec struct {
	Kind    int  `json:"kind"` // simdisk.CallKind
	Ordinal int  `json:"ordinal"`
	Burst   int  `json:"burst"`
	Mode    int  `json:"mode"`
	NoSpace bool `json:"nospace,omitempty"`
}

// Replay is the on-disk format of a saved case.
type Replay struct {
	Property  string          `json:"property"`
	Kind      string          `json:"kind"` // "file" | "queue" | ...
	Clause    string          `json:"clause,omitempty"`
	Message   string          `json:"message,omitempty"`
	Program   json.RawMessage `json:"program"`
	Params    json.RawMessage `json:"params,omitempty"`
	Seed      uint64          `json:"seed,omitempty"`
	Generated string          `json:"generated_by,omitempty"`
}

func LoadReplay(path string) (*Replay, error) {
	b, err := os.ReadFile(path)
	if err != nil {
		return nil, err
	}
	var r Replay
	if err := json.Unmarshal(b, &r); err != nil {
		return nil, fmt.Errorf("%s: %v", path, err)
	}
	return &r, nil
}

func (r *Replay) Save(path string) error {
	b, err := json.MarshalIndent(r, "", " ")
	if err != nil {
		return err
	}
	return os.WriteFile(path, append(b, '\n'), 0o644)
}

// Violation is a property violation found by an oracle.
type Violation struct {
	Clause string // short stable identifier of the oracle clause
	Msg    string
	Item   int // program item index (-1 unknown)
}

func (v *Violation) Error() string {
	return fmt.Sprintf("[%s] item %d: %s", v.Clause, v.Item, v.Msg)
}

func violationf(clause string, item int, format string, args ...interface{}) *Violation {
	return &Violation{Clause: clause, Item: item, Msg: fmt.Sprintf(format, args...)}
}
