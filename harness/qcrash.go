package harness

import (
	"bytes"
	"fmt"
	"runtime/debug"

	txfile "github.com/elastic/go-txfile"
	"github.com/elastic/go-txfile/pq"

	"verif/simdisk"
)

type qRange struct{ a, f int }

// CheckQueueCrashImages enumerates the crash images of a recorded queue
// history (QOpts.MarkLog) and checks C06 on each: the recovered queue holds
// exactly events [a, f) for an allowed (ACKed, flushed) pair.
func CheckQueueCrashImages(r *QRunner, cp CrashParams, st *CrashStats) (v *Violation) {
	log := r.Disk.Log()
	ps := int(r.P.Cfg.PageSize)
	if st.RecoveredTo == nil {
		st.RecoveredTo = map[string]int{}
	}
	rnd := NewRand(cp.Seed)
	o := simdisk.EnumOpts{
		PageSize:   ps,
		HeaderSize: txfile.VerifHeaderSize,
		MaxFull:    cp.MaxFull,
		Random:     cp.Random,
		TornCuts:   cp.TornCuts,
		// most writer calls only touch the in-memory buffer: enumerate a position
		// only after an I/O op, or after the first marker following an I/O op
		Boundary: func(k int) bool {
			if log[k-1].Kind != simdisk.OpMark {
				return true
			}
			return k >= 2 && log[k-2].Kind != simdisk.OpMark
		},
	}
	imgNo := 0
	lastK := -1
	from := r.CreatedIdx
	if cp.FromFirstFailure && r.FirstFailIdx > from+40 {
		from = r.FirstFailIdx - 40
	}
	simdisk.Enumerate(log, from, o, rnd, func(spec simdisk.CrashSpec, pend []simdisk.PendOp, img []byte) {
		if v != nil {
			return
		}
		if cp.MaxImages > 0 && imgNo >= cp.MaxImages {
			if imgNo == cp.MaxImages {
				st.Capped++
				imgNo++
			}
			return
		}
		if spec.K != lastK {
			lastK = spec.K
			st.Positions++
		}
		known := qRange{0, 0}
		var inProgress *QCall
		for i := range r.Calls {
			c := &r.Calls[i]
			switch {
			case c.EndIdx < spec.K:
				known = qRange{c.AckedAf, c.FlushedAf}
			case c.BeginIdx < spec.K:
				inProgress = c
			}
		}
		allowed := []qRange{known}
		if inProgress != nil {
			if inProgress.AckedAf != known.a {
				allowed = append(allowed, qRange{inProgress.AckedAf, known.f})
			}
			if inProgress.FlushedAf != known.f {
				allowed = append(allowed, qRange{known.a, inProgress.FlushedAf})
			}
		}
		if spec.TornAt >= 0 {
			p := pend[spec.TornAt]
			if int(p.Off)+txfile.VerifHeaderSize <= len(img) && ParseHeader(img[p.Off:]).Valid {
				mixed := string(img[p.Off : int(p.Off)+txfile.VerifHeaderSize])
				if mixed != string(p.Data) && mixed != string(spec.TornOld) {
					st.TornValid++
					return
				}
			}
		}
		imgNo++
		st.Images++
		inWindow := inProgress != nil && len(allowed) > 1
		if inWindow {
			st.InWindow++
		}
		if spec.TornAt >= 0 {
			st.Torn++
		}
		proper := len(spec.Kept) > 0 && len(spec.Kept) < spec.Pending
		if inWindow && (spec.TornAt >= 0 || proper) {
			st.Nontrivial++
		}
		suffix := cp.SuffixEvery > 0 && imgNo%(cp.SuffixEvery/4+1) == 0
		which, vv := checkOneQueueImage(r, img, allowed, spec, suffix, st)
		if vv != nil {
			v = vv
			return
		}
		if inWindow {
			if which == 0 {
				st.RecoveredTo["old"]++
			} else {
				st.RecoveredTo["new"]++
			}
		}
	})
	return v
}

func checkOneQueueImage(r *QRunner, img []byte, allowed []qRange, spec simdisk.CrashSpec, suffix bool, st *CrashStats) (which int, v *Violation) {
	var f *txfile.File
	defer func() {
		if x := recover(); x != nil {
			stk := debug.Stack()
			v = violationf("qcrash-panic", spec.K, "crash image {%s}: panic while recovering the queue: %v at %s", spec.String(), x, panicSite(stk))
			if f != nil {
				func() {
					defer func() { recover() }()
					f.Close()
				}()
			}
		}
	}()
	d := simdisk.FromImage("qcrash", img)
	d.SetRecord(false)
	var err error
	f, err = txfile.VerifOpen(d, txfile.Options{})
	if err != nil {
		return 0, violationf("qcrash-open", spec.K, "crash image {%s}: open failed: %v", spec.String(), err)
	}
	events, vv := DrainCopy(f)
	if vv != nil {
		f.Close()
		vv.Clause = "qcrash-" + vv.Clause
		vv.Msg = fmt.Sprintf("crash image {%s}: %s", spec.String(), vv.Msg)
		return 0, vv
	}
	which = -1
	for i, a := range allowed {
		if a.f-a.a != len(events) || a.f > len(r.Events) {
			continue
		}
		ok := true
		for j, ev := range events {
			if !bytes.Equal(ev, r.Events[a.a+j]) {
				ok = false
				break
			}
		}
		if ok {
			which = i
			break
		}
	}
	if which < 0 {
		f.Close()
		desc := ""
		if len(events) > 0 {
			// identify what was recovered
			for idx, ev := range r.Events {
				if bytes.Equal(ev, events[0]) {
					desc = fmt.Sprintf(" (first recovered event equals event #%d)", idx)
					break
				}
			}
		}
		return 0, violationf("qcrash-range", spec.K, "crash image {%s}: recovered queue delivers %d events%s; allowed [ACKed,flushed) ranges: %v",
			spec.String(), len(events), desc, allowed)
	}
	if suffix {
		st.Suffixes++
		if vv := queueSuffix(f, events, spec); vv != nil {
			f.Close()
			return which, vv
		}
	}
	if err := f.Close(); err != nil {
		return which, violationf("qcrash-close", spec.K, "crash image {%s}: close failed: %v", spec.String(), err)
	}
	return which, nil
}

// queueSuffix: the recovered queue accepts a new event, delivers old + new in
// order and can ACK everything.
func queueSuffix(f *txfile.File, old [][]byte, spec simdisk.CrashSpec) *Violation {
	d, err := pq.NewStandaloneDelegate(f)
	if err != nil {
		return violationf("qcrash-suffix", spec.K, "crash image {%s}: NewStandaloneDelegate failed: %v", spec.String(), err)
	}
	q, err := pq.New(d, pq.Settings{})
	if err != nil {
		return violationf("qcrash-suffix", spec.K, "crash image {%s}: pq.New failed: %v", spec.String(), err)
	}
	w, err := q.Writer()
	if err != nil {
		return violationf("qcrash-suffix", spec.K, "crash image {%s}: Writer failed: %v", spec.String(), err)
	}
	ev := make([]byte, 1500)
	EventFill(1<<20, 0, ev)
	bounded := f.VerifState().MaxPages > 0
	wrote, completed := false, false
	appendEvent := func() error {
		if !wrote {
			if _, err := w.Write(ev); err != nil {
				return fmt.Errorf("Write failed: %v", err) // a failing Write consumed nothing
			}
			wrote = true
		}
		if !completed {
			completed = true // also if the flush inside Next fails the event is complete in the buffer
			if err := w.Next(); err != nil {
				return fmt.Errorf("Next failed: %v", err)
			}
		}
		if err := w.Flush(); err != nil {
			return fmt.Errorf("Flush failed: %v", err)
		}
		return nil
	}
	if err := appendEvent(); err != nil {
		// on a bounded file that is full the writer reports an error; reading and ACK still work,
		// and once the recovered events are ACKed the buffered event can be flushed
		if !bounded || len(old) == 0 {
			return violationf("qcrash-suffix", spec.K, "crash image {%s}: %v", spec.String(), err)
		}
		if err := q.ACK(uint(len(old))); err != nil {
			return violationf("qcrash-suffix", spec.K, "crash image {%s}: file full (%v), then ACK(%d) of the recovered events failed: %v", spec.String(), err, len(old), err)
		}
		old = nil
		if err := appendEvent(); err != nil {
			return violationf("qcrash-suffix", spec.K, "crash image {%s}: after ACKing all recovered events on the full file: %v", spec.String(), err)
		}
	}
	got, v := DrainCopy(f)
	if v != nil {
		v.Clause = "qcrash-suffix"
		v.Msg = fmt.Sprintf("crash image {%s}: after appending an event: %s", spec.String(), v.Msg)
		return v
	}
	want := append(append([][]byte(nil), old...), ev)
	if len(got) != len(want) {
		return violationf("qcrash-suffix", spec.K, "crash image {%s}: after appending one event the queue delivers %d events, expected %d", spec.String(), len(got), len(want))
	}
	for i := range want {
		if !bytes.Equal(got[i], want[i]) {
			return violationf("qcrash-suffix", spec.K, "crash image {%s}: after appending one event, event at position %d differs", spec.String(), i)
		}
	}
	if err := q.ACK(uint(len(want))); err != nil {
		return violationf("qcrash-suffix", spec.K, "crash image {%s}: ACK(%d) failed: %v", spec.String(), len(want), err)
	}
	if n, err := q.Pending(); err != nil || n != 0 {
		return violationf("qcrash-suffix", spec.K, "crash image {%s}: after ACKing everything Pending=%d err=%v", spec.String(), n, err)
	}
	if err := q.Close(); err != nil {
		return violationf("qcrash-suffix", spec.K, "crash image {%s}: Queue.Close failed: %v", spec.String(), err)
	}
	return nil
}
