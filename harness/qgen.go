package harness

import (
	"pgregory.net/rapid"
)

// QGenParams tunes the queue program generator.
type QGenParams struct {
	MaxBlocks  int
	Bounded    bool // small bounded files (C12) instead of unbounded
	MinPages   uint
	MaxPages   uint
	Reopen     bool
	Probes     bool
	FillCycles bool // emit fill-until-error / drain / ack cycles
}

// GenQConfig draws file/queue parameters.
func GenQConfig(t *rapid.T, p QGenParams) QConfig {
	c := QConfig{}
	c.PageSize = rapid.SampledFrom([]uint32{1024, 1024, 4096}).Draw(t, "pageSize")
	ps := uint(c.PageSize)
	c.WriteBuffer = rapid.SampledFrom([]uint{0, ps, 8 * ps, 65536}).Draw(t, "wbuf")
	if p.Bounded {
		min := uint(65536 / ps)
		if p.MinPages > min {
			min = p.MinPages
		}
		max := p.MaxPages
		if max < min {
			max = min
		}
		c.MaxPages = uint(rapid.IntRange(int(min), int(max)).Draw(t, "maxPages"))
	} else if rapid.IntRange(0, 3).Draw(t, "bigBounded") == 0 {
		c.MaxPages = 4096 // bounded but far bigger than any program needs
	}
	c.InitMeta = rapid.SampledFrom([]uint32{0, 0, 4, 8}).Draw(t, "initMeta")
	c.Observer = rapid.IntRange(0, 1).Draw(t, "observer") == 1
	return c
}

// genEventSize draws a boundary biased event size.
func genEventSize(t *rapid.T, c QConfig) int {
	payload := int(c.PageSize) - 28
	wbuf := int(c.WriteBuffer)
	switch rapid.IntRange(0, 9).Draw(t, "sizeClass") {
	case 0:
		return rapid.IntRange(1, 3).Draw(t, "tiny")
	case 1, 2: // ends exactly on / around a page boundary (4 byte event header)
		k := rapid.IntRange(1, 3).Draw(t, "k")
		d := rapid.SampledFrom([]int{-5, -4, -3, -1, 0, 1, 4}).Draw(t, "d")
		n := k*payload - 4 + d
		if n < 1 {
			n = 1
		}
		return n
	case 3: // multiples of the payload
		k := rapid.IntRange(1, 4).Draw(t, "k")
		d := rapid.SampledFrom([]int{-8, -4, -1, 0, 1, 4}).Draw(t, "d")
		return k*payload + d
	case 4: // bigger than the write buffer
		if wbuf == 0 {
			wbuf = 5 * int(c.PageSize)
		}
		n := wbuf + rapid.IntRange(-40, 2000).Draw(t, "over")
		if n > 40000 {
			n = 40000
		}
		if n < 1 {
			n = 1
		}
		return n
	case 5: // many pages
		return rapid.IntRange(2*payload, 7*payload).Draw(t, "multi")
	default:
		return rapid.IntRange(4, 2*payload).Draw(t, "size")
	}
}

// genEvent emits the steps of one event: Write chunks, then Next.
func genEvent(t *rapid.T, c QConfig, steps *[]QStep) {
	size := genEventSize(t, c)
	switch rapid.IntRange(0, 3).Draw(t, "chunking") {
	case 0: // one chunk
		*steps = append(*steps, QStep{K: QWrite, A: size})
	case 1: // a few cuts
		rest := size
		for rest > 0 {
			n := rapid.IntRange(1, rest).Draw(t, "chunk")
			if rapid.IntRange(0, 5).Draw(t, "one") == 0 {
				n = 1
			}
			*steps = append(*steps, QStep{K: QWrite, A: n})
			rest -= n
			if rapid.IntRange(0, 11).Draw(t, "midflush") == 0 {
				*steps = append(*steps, QStep{K: QFlush})
			}
		}
	default: // fixed chunk size
		cs := rapid.SampledFrom([]int{1, 7, 64, 500, 1000, 4096}).Draw(t, "chunkSize")
		if size/cs > 60 {
			cs = size/60 + 1
		}
		for rest := size; rest > 0; rest -= cs {
			n := cs
			if n > rest {
				n = rest
			}
			*steps = append(*steps, QStep{K: QWrite, A: n})
		}
	}
	*steps = append(*steps, QStep{K: QNext})
}

// genReaderSection emits Begin ... Done with reads in chunks.
func genReaderSection(t *rapid.T, c QConfig, steps *[]QStep, probes bool) {
	*steps = append(*steps, QStep{K: QRBegin})
	n := rapid.IntRange(0, 6).Draw(t, "events")
	// continue a partially read event first
	if rapid.IntRange(0, 2).Draw(t, "cont") == 0 {
		*steps = append(*steps, QStep{K: QRRead, A: rapid.IntRange(1, 3000).Draw(t, "contLen")})
	}
	for i := 0; i < n; i++ {
		*steps = append(*steps, QStep{K: QRNext})
		switch rapid.IntRange(0, 4).Draw(t, "readMode") {
		case 0: // whole event at once
			*steps = append(*steps, QStep{K: QRRead, A: 50000})
		case 1: // skip (no read)
		case 2: // partial only
			*steps = append(*steps, QStep{K: QRRead, A: rapid.IntRange(1, 1500).Draw(t, "part")})
		default: // chunks
			k := rapid.IntRange(1, 5).Draw(t, "reads")
			for j := 0; j < k; j++ {
				*steps = append(*steps, QStep{K: QRRead, A: rapid.SampledFrom([]int{1, 3, 100, 996, 1000, 4068, 8000}).Draw(t, "len")})
			}
			*steps = append(*steps, QStep{K: QRRead, A: 50000})
		}
		if probes && rapid.IntRange(0, 5).Draw(t, "probe") == 0 {
			*steps = append(*steps, QStep{K: QProbe})
		}
	}
	*steps = append(*steps, QStep{K: QRDone})
}

// GenQProgram draws a queue program: either a free sequence of blocks or a
// sequence of produce/flush/consume/ack rounds (which reaches the reader and
// ACK paths far more often).
func GenQProgram(t *rapid.T, p QGenParams) *QProgram {
	prog := &QProgram{Cfg: GenQConfig(t, p)}
	var steps []QStep
	reopen := func() {
		// sometimes the queue is closed in the middle of an event: the unfinished
		// event (possibly with part of it already flushed to the tail page) is dropped
		if rapid.IntRange(0, 2).Draw(t, "unfinished") == 0 {
			steps = append(steps, QStep{K: QWrite, A: genEventSize(t, prog.Cfg)})
			if rapid.IntRange(0, 1).Draw(t, "flushUnfinished") == 0 {
				steps = append(steps, QStep{K: QFlush})
			}
		}
		k := QReopenQ
		if rapid.IntRange(0, 1).Draw(t, "file") == 1 {
			k = QReopenF
		}
		steps = append(steps, QStep{K: k})
	}
	if rapid.IntRange(0, 3).Draw(t, "style") == 0 {
		nb := rapid.IntRange(1, p.MaxBlocks).Draw(t, "blocks")
		for b := 0; b < nb; b++ {
			switch x := rapid.IntRange(0, 19).Draw(t, "block"); {
			case x < 9:
				genEvent(t, prog.Cfg, &steps)
			case x < 11:
				steps = append(steps, QStep{K: QFlush})
			case x < 15:
				genReaderSection(t, prog.Cfg, &steps, p.Probes)
			case x < 17:
				steps = append(steps, QStep{K: QAck, A: rapid.IntRange(1, 8).Draw(t, "ack")})
			case x == 17 && p.Reopen:
				reopen()
			case p.Probes:
				steps = append(steps, QStep{K: QProbe})
			default:
				genEvent(t, prog.Cfg, &steps)
			}
		}
	} else {
		rounds := rapid.IntRange(1, (p.MaxBlocks+3)/4).Draw(t, "rounds")
		for i := 0; i < rounds; i++ {
			n := rapid.IntRange(1, 5).Draw(t, "produce")
			for j := 0; j < n; j++ {
				genEvent(t, prog.Cfg, &steps)
			}
			if rapid.IntRange(0, 4).Draw(t, "flush") != 0 {
				steps = append(steps, QStep{K: QFlush})
			}
			if p.Probes && rapid.IntRange(0, 3).Draw(t, "probe1") == 0 {
				steps = append(steps, QStep{K: QProbe})
			}
			if rapid.IntRange(0, 5).Draw(t, "read") != 0 {
				genReaderSection(t, prog.Cfg, &steps, p.Probes)
				if rapid.IntRange(0, 3).Draw(t, "ack") != 0 {
					steps = append(steps, QStep{K: QAck, A: rapid.IntRange(1, 8).Draw(t, "ackn")})
				}
			}
			if p.Probes && rapid.IntRange(0, 3).Draw(t, "probe2") == 0 {
				steps = append(steps, QStep{K: QProbe})
			}
			if p.Reopen && rapid.IntRange(0, 5).Draw(t, "reopen") == 0 {
				reopen()
			}
		}
	}
	prog.Steps = steps
	return prog
}

// GenQFillProgram draws a C12 program: fill/drain/ack cycles on a small file.
func GenQFillProgram(t *rapid.T, p QGenParams) *QProgram {
	prog := &QProgram{Cfg: GenQConfig(t, p)}
	ps := uint(prog.Cfg.PageSize)
	prog.Cfg.WriteBuffer = rapid.SampledFrom([]uint{0, ps, 4 * ps, 8 * ps}).Draw(t, "wbuf12")
	if prog.Cfg.InitMeta > 4 {
		prog.Cfg.InitMeta = 4
	}
	var steps []QStep
	if rapid.IntRange(0, 3).Draw(t, "bigFlush") == 0 {
		// one flush on the young file takes (nearly) all of its pages: the write buffer is as large as the
		// file and N one-page events are flushed at once, N around the capacity of the data area; then the
		// consumer reads and ACKs event by event on the (exactly) full file
		prog.Cfg.WriteBuffer = prog.Cfg.MaxPages * ps
		payload := int(ps) - 28
		n := int(prog.Cfg.MaxPages) - rapid.IntRange(2, 9).Draw(t, "slack")
		for i := 0; i < n; i++ {
			steps = append(steps, QStep{K: QWrite, A: payload - 4}, QStep{K: QNext})
		}
		steps = append(steps, QStep{K: QFlush})
		for i, k := 0, rapid.IntRange(1, 4).Draw(t, "singleAcks"); i < k; i++ {
			steps = append(steps, QStep{K: QDrain, A: 1}, QStep{K: QAck, A: 1})
		}
		steps = append(steps, QStep{K: QWrite, A: rapid.IntRange(1, payload).Draw(t, "extra")}, QStep{K: QNext}, QStep{K: QFlush},
			QStep{K: QDrain}, QStep{K: QAckAll}, QStep{K: QFlush}, QStep{K: QDrain}, QStep{K: QAckAll})
	}
	cycles := rapid.IntRange(2, p.MaxBlocks).Draw(t, "cycles")
	for i := 0; i < cycles; i++ {
		switch rapid.IntRange(0, 5).Draw(t, "kind") {
		case 0: // steady state round
			n := rapid.IntRange(1, 6).Draw(t, "n")
			for j := 0; j < n; j++ {
				steps = append(steps, QStep{K: QWrite, A: rapid.IntRange(1, 2*int(ps)).Draw(t, "sz")}, QStep{K: QNext})
			}
			steps = append(steps, QStep{K: QFlush}, QStep{K: QDrain}, QStep{K: QAckAll})
		default: // fill to error, then drain and ack
			steps = append(steps, QStep{K: QFill, A: rapid.IntRange(0, 1<<16).Draw(t, "seed")})
			if rapid.IntRange(0, 2).Draw(t, "retry") == 0 {
				steps = append(steps, QStep{K: QFlush}) // retry on the full file
			}
			switch rapid.IntRange(0, 3).Draw(t, "consume") {
			case 0: // partial drain and ack
				steps = append(steps, QStep{K: QDrain, A: rapid.IntRange(1, 20).Draw(t, "k")}, QStep{K: QAck, A: rapid.IntRange(1, 20).Draw(t, "a")})
				steps = append(steps, QStep{K: QFlush})
				steps = append(steps, QStep{K: QDrain}, QStep{K: QAckAll})
			default:
				steps = append(steps, QStep{K: QDrain}, QStep{K: QAckAll})
			}
			// after everything is ACKed the buffered events must be flushable
			steps = append(steps, QStep{K: QFlush}, QStep{K: QDrain}, QStep{K: QAckAll})
		}
		if rapid.IntRange(0, 7).Draw(t, "reopen") == 0 {
			steps = append(steps, QStep{K: QReopenF})
		}
	}
	prog.Steps = steps
	return prog
}
