package harness

import (
	"bytes"
	"encoding/json"
	"fmt"
	"hash/fnv"
	"os"
	"runtime/debug"
	"time"

	txfile "github.com/elastic/go-txfile"
	"github.com/elastic/go-txfile/pq"
	"github.com/elastic/go-txfile/txerr"

	"verif/simdisk"
)

// QConfig configures file and queue of a queue program.
type QConfig struct {
	PageSize    uint32 `json:"ps"`
	MaxPages    uint   `json:"max,omitempty"`
	WriteBuffer uint   `json:"wbuf,omitempty"`
	InitMeta    uint32 `json:"meta,omitempty"`
	Observer    bool   `json:"obs,omitempty"` // install a pq.Observer (stats callbacks) on every queue handle
}

// qObserver records the totals reported through the pq.Observer callbacks.
type qObserver struct {
	r            *QRunner
	flushedOK    int // sum of FlushStats.Events of flushes not marked Failed
	ackedOK      int // sum of ACKStats.Events of ACKs not marked Failed
	failedFlush  int
	lastInit     int // 'available' reported by the most recent OnQueueInit (-1: none)
	initReported bool
}

func (o *qObserver) OnQueueInit(_ uintptr, _ uint32, available uint) {
	o.lastInit, o.initReported = int(available), true
}
func (o *qObserver) OnQueueFlush(_ uintptr, st pq.FlushStats) {
	if st.Failed {
		o.failedFlush++
		return
	}
	o.flushedOK += int(st.Events)
}
func (o *qObserver) OnQueueRead(_ uintptr, _ pq.ReadStats) {}
func (o *qObserver) OnQueueACK(_ uintptr, st pq.ACKStats) {
	if !st.Failed {
		o.ackedOK += int(st.Events)
	}
}

// QStep is one step of a queue program.
type QStep struct {
	K string `json:"k"`
	A int    `json:"a,omitempty"`
}

// Queue step kinds.
const (
	QWrite   = "w"       // Writer.Write of A bytes of the current event
	QNext    = "next"    // Writer.Next
	QFlush   = "flush"   // Writer.Flush
	QRBegin  = "rbegin"  // Reader.Begin
	QRNext   = "rnext"   // Reader.Next
	QRRead   = "rread"   // Reader.Read into a buffer of A bytes
	QRDone   = "rdone"   // Reader.Done
	QAck     = "ack"     // ACK of up to A fully consumed events
	QReopenQ = "reopenq" // close the queue, open a new queue object on the same file
	QReopenF = "reopenf" // close queue and file, reopen both
	QProbe   = "probe"   // counters + drain probe
	QMisuse  = "misuse"  // C15 queue cells
	QFill    = "fill"    // write events (sizes derived from A) until a writer call fails (bounded files)
	QDrain   = "drain"   // reader section: read up to A events completely (0 = all available)
	QAckAll  = "ackall"  // ACK every consumed event
)

// QProgram is a generated test case for the queue layer.
type QProgram struct {
	Cfg   QConfig  `json:"cfg"`
	Steps []QStep  `json:"steps"`
	Aux   []uint64 `json:"aux,omitempty"`
	// Fault, if set, is the one fault plan to run (replays of fault runs); otherwise plans are drawn from Aux.
	Fault *FaultSpec `json:"fault,omitempty"`
}

func (p *QProgram) JSON() []byte {
	b, err := json.Marshal(p)
	if err != nil {
		panic(err)
	}
	return b
}

func (p *QProgram) Hash() uint64 {
	h := fnv.New64a()
	h.Write(p.JSON())
	return h.Sum64()
}

func (p *QProgram) Clone() *QProgram {
	var q QProgram
	if err := json.Unmarshal(p.JSON(), &q); err != nil {
		panic(err)
	}
	return &q
}

// EventFill writes the reproducible content of event number ev, starting at
// byte offset off, into buf.
func EventFill(ev int, off int, buf []byte) {
	for i := range buf {
		p := uint64(off + i)
		x := (uint64(ev)+1)*0x9E3779B97F4A7C15 ^ (p/8+1)*0xBF58476D1CE4E5B9
		x ^= x >> 31
		x *= 0x94D049BB133111EB
		x ^= x >> 29
		buf[i] = byte(x >> (8 * (p % 8)))
	}
}

// QOpts selects oracles of the queue interpreter.
type QOpts struct {
	CheckCounters bool // C17
	CheckSpace    bool // C12 space bound
	MarkLog       bool // C06: markers around writer/ACK calls
	DrainWriter   bool
	Disk          *simdisk.Disk
	// Faults: an I/O fault plan is armed on the disk. Writer calls, ACK and Close may fail when an
	// injected failure hit them (the model rules are those of a full file: a failing Write consumed
	// nothing, an event completed by Next stays buffered, a failed ACK removed nothing); close/reopen
	// steps are skipped while failures can still occur.
	Faults bool
}

// QCall records a writer or ACK call for crash checks (C06).
type QCall struct {
	Step      int
	Kind      string
	BeginIdx  int
	EndIdx    int
	FlushedB4 int // flushed (callback ground truth) before the call
	FlushedAf int // after
	AckedB4   int
	AckedAf   int
}

// QRunner interprets a queue program against implementation and model.
type QRunner struct {
	// FirstFailIdx: op log length when a writer call failed for the first time (file full), 0 = never
	FirstFailIdx int
	P            *QProgram
	O            QOpts
	Disk         *simdisk.Disk
	F            *txfile.File
	Obsv         *StatsObserver

	Q      *pq.Queue
	W      *pq.Writer
	R      *pq.Reader
	closed bool

	// model
	Events          [][]byte // completed events (by Next)
	cur             []byte   // bytes of the event being written
	Certain         int      // events covered by an explicit successful Flush (or reopen)
	Acked           int
	consumed        int // events fully consumed (read to the end or skipped) by the reader
	curEv           int // event the reader is inside, -1 if none
	curOff          int
	inSect          bool
	certainAtBegin  int
	possibleAtBegin int

	// callback ground truth
	FlushedCB int // total events reported by Flushed callbacks (all queue instances)
	AckedCB   int
	cbBase    int // FlushedCB does not include events flushed by previous queue instances' Close: tracked via base

	Counters     map[string]int
	Calls        []QCall
	step         int
	CreatedIdx   int
	writeFailed  bool
	maxPagesUsed uint
	callInj0     int // injected failures before the current writer/ACK call
	qobs         *qObserver
	unconfirmed  bool // a call failed under an injected failure and no write transaction has succeeded since
}

// NewQRunner creates file, delegate and queue.
func NewQRunner(p *QProgram, o QOpts) (*QRunner, *Violation) {
	r := &QRunner{P: p, O: o, Counters: map[string]int{}, curEv: -1, Obsv: &StatsObserver{}}
	r.Disk = o.Disk
	if r.Disk == nil {
		r.Disk = simdisk.New("qsim")
	}
	if v := r.openFile(true); v != nil {
		return nil, v
	}
	r.CreatedIdx = r.Disk.LogLen()
	return r, nil
}

func (r *QRunner) fileOptions() txfile.Options {
	return txfile.Options{
		PageSize:     r.P.Cfg.PageSize,
		MaxSize:      uint64(r.P.Cfg.MaxPages) * uint64(r.P.Cfg.PageSize),
		InitMetaArea: r.P.Cfg.InitMeta,
		Observer:     r.Obsv,
	}
}

func (r *QRunner) openFile(create bool) *Violation {
	opts := r.fileOptions()
	if !create {
		opts = txfile.Options{Observer: r.Obsv}
	}
	f, err := txfile.VerifOpen(r.Disk, opts)
	if err != nil {
		return violationf("q-open", r.step, "opening the file failed: %v", err)
	}
	r.F = f
	return r.openQueue()
}

func (r *QRunner) openQueue() *Violation {
	d, err := pq.NewStandaloneDelegate(r.F)
	if err != nil {
		return violationf("q-open", r.step, "NewStandaloneDelegate failed: %v", err)
	}
	settings := pq.Settings{
		WriteBuffer: r.P.Cfg.WriteBuffer,
		Flushed:     func(n uint) { r.FlushedCB += int(n) },
		ACKed:       func(ev, pages uint) { r.AckedCB += int(ev) },
	}
	if r.P.Cfg.Observer {
		if r.qobs == nil {
			r.qobs = &qObserver{r: r}
		}
		r.qobs.initReported = false
		settings.Observer = r.qobs
	}
	q, err := pq.New(d, settings)
	if err != nil {
		return violationf("q-open", r.step, "pq.New failed: %v", err)
	}
	if r.qobs != nil {
		// C17 (also after reopening the queue): the number of available events reported when the
		// queue is opened is flushed minus ACKed
		if !r.qobs.initReported {
			return violationf("q-observer-init", r.step, "pq.New with an Observer did not report OnQueueInit")
		}
		if want := r.FlushedCB - r.Acked; r.qobs.lastInit != want && !(r.O.Faults && !r.Disk.FaultOver()) {
			return violationf("q-observer-init", r.step, "OnQueueInit reported %d available events, flushed minus ACKed is %d (flushed %d, ACKed %d)", r.qobs.lastInit, want, r.FlushedCB, r.Acked)
		}
		r.count("observer-init-checked")
	}
	r.Q = q
	r.W = nil
	r.R = nil
	return nil
}

func (r *QRunner) count(n string) {
	r.Counters[n]++
	if r.FirstFailIdx == 0 && (n == "write-failed" || n == "next-failed" || n == "flush-failed") {
		r.FirstFailIdx = r.Disk.LogLen()
	}
}

func (r *QRunner) bounded() bool { return r.P.Cfg.MaxPages > 0 }

// mayFail: a writer call, ACK or Close may report an error: the file is bounded (full), or an
// injected I/O failure hit the call.
var qDebug = os.Getenv("VERIF_QDEBUG") != ""

func (r *QRunner) debugf(format string, args ...interface{}) {
	if qDebug {
		fmt.Fprintf(os.Stderr, "[q step %d] "+format+"\n", append([]interface{}{r.step}, args...)...)
	}
}

func errChain(err error) string {
	out := ""
	for i := 0; err != nil && i < 10; i++ {
		out += fmt.Sprintf(" <%T: %v>", err, err)
		c, ok := err.(interface{ Cause() error })
		if !ok {
			break
		}
		err = c.Cause()
	}
	return out
}

func (r *QRunner) mayFail() bool {
	if r.faultHit() {
		r.Counters["call-failed-by-fault"]++
		return true
	}
	return r.bounded()
}

func (r *QRunner) faultHit() bool {
	hit := r.O.Faults && r.Disk.Injected() > r.callInj0
	if hit {
		// The transaction of the failed call may have failed by its final sync only: its header is
		// restored at the latest when the next write transaction begins (C08 allows the file to show
		// that attempt completely until then). The model does not follow that alternative; steps that
		// would look at the file through a reopen without an intervening write transaction are skipped.
		r.unconfirmed = true
	}
	return hit
}

func (r *QRunner) writer() (*pq.Writer, *Violation) {
	if r.W == nil {
		w, err := r.Q.Writer()
		if err != nil {
			return nil, violationf("q-writer", r.step, "Queue.Writer failed: %v", err)
		}
		r.W = w
	}
	return r.W, nil
}

func (r *QRunner) reader() *pq.Reader {
	if r.R == nil {
		r.R = r.Q.Reader()
	}
	return r.R
}

// Run executes all steps; never panics.
func (r *QRunner) Run() (v *Violation) {
	defer func() {
		if x := recover(); x != nil {
			st := debug.Stack()
			v = violationf("panic", r.step, "panic: %v at %s [%s]", x, panicSite(st), trimStack(st))
		}
		if v != nil {
			r.cleanup()
		}
	}()
	for i := range r.P.Steps {
		r.step = i
		if v := r.Step(&r.P.Steps[i]); v != nil {
			return v
		}
		if r.O.CheckSpace && !r.inSect && r.F != nil {
			if v := r.CheckSpace(); v != nil {
				return v
			}
		}
	}
	r.step = len(r.P.Steps)
	if r.O.Faults {
		return r.finishAfterFaults()
	}
	return r.Close()
}

// finishAfterFaults: the failures stop for good. The buffered events can be flushed (on a bounded file
// possibly only after draining and ACKing), the queue then holds exactly the un-ACKed completed events,
// also after closing and reopening file and queue, and everything can be consumed and ACKed.
func (r *QRunner) finishAfterFaults() *Violation {
	if r.Disk.Injected() > 0 {
		r.count("fault-hit")
	}
	r.Disk.Arm(nil)
	steps := []QStep{{K: QRDone}, {K: QFlush}}
	for _, s := range steps {
		if v := r.Step(&s); v != nil {
			return v
		}
	}
	if r.Certain != len(r.Events) {
		// bounded file: full. Reading and ACK work; afterwards the flush succeeds.
		for _, s := range []QStep{{K: QDrain}, {K: QAckAll}, {K: QFlush}} {
			if v := r.Step(&s); v != nil {
				return v
			}
		}
		if r.Certain != len(r.Events) {
			if !r.bounded() {
				return violationf("q-stuck-after-faults", r.step, "the failures stopped, everything flushed was consumed and ACKed, but %d completed events can still not be flushed", len(r.Events)-r.Certain)
			}
			// the buffered events do not fit into the (tiny) file even when it is empty; the Flush step has
			// applied C12's rule (q-stuck) with its capacity guard. Nothing more to check on this handle.
			r.count("buffered-exceeds-capacity")
			return r.Close()
		}
	}
	for _, s := range []QStep{{K: QProbe}, {K: QReopenF}, {K: QProbe}, {K: QDrain}, {K: QAckAll}, {K: QProbe}} {
		if v := r.Step(&s); v != nil {
			v.Msg = "after the I/O failures stopped: " + v.Msg
			return v
		}
	}
	if r.Acked != len(r.Events) {
		return violationf("q-lost-after-faults", r.step, "after the I/O failures stopped only %d of %d completed events could be consumed and ACKed", r.Acked, len(r.Events))
	}
	return r.Close()
}

func (r *QRunner) cleanup() {
	defer func() { recover() }()
	if r.inSect && r.R != nil {
		func() {
			defer func() { recover() }()
			r.R.Done()
		}()
	}
	if r.F != nil {
		f := r.F
		r.F = nil
		done := make(chan struct{})
		go func() {
			defer close(done)
			defer func() { recover() }()
			f.Close()
		}()
		select {
		case <-done:
		case <-time.After(2 * time.Second):
		}
	}
}

// Close ends an open reader section and closes queue and file.
func (r *QRunner) Close() *Violation {
	if r.inSect {
		r.R.Done()
		r.inSect = false
	}
	if v := r.closeQueue(); v != nil {
		return v
	}
	if r.F != nil {
		err := r.F.Close()
		r.F = nil
		if err != nil {
			return violationf("q-close", r.step, "File.Close failed: %v", err)
		}
	}
	return nil
}

func (r *QRunner) mark(text string) int {
	if r.O.MarkLog {
		r.Disk.Mark(text, r.step)
		return r.Disk.LogLen() - 1
	}
	return 0
}

func (r *QRunner) beginCall(kind string) QCall {
	r.callInj0 = r.Disk.Injected()
	return QCall{Step: r.step, Kind: kind, BeginIdx: r.mark("qb"), FlushedB4: r.FlushedCB, AckedB4: r.Acked}
}

func (r *QRunner) endCall(c QCall) {
	if !r.O.MarkLog {
		return
	}
	c.EndIdx = r.mark("qe")
	c.FlushedAf = r.FlushedCB
	c.AckedAf = r.Acked
	r.Calls = append(r.Calls, c)
}

// closeQueue closes the queue object: buffered complete events are flushed.
func (r *QRunner) closeQueue() *Violation {
	if r.Q == nil {
		return nil
	}
	c := r.beginCall("close")
	err := r.Q.Close()
	r.Q, r.W, r.R = nil, nil, nil
	if err != nil {
		if !r.mayFail() {
			return violationf("q-close", r.step, "Queue.Close failed: %v", err)
		}
		r.count("close-flush-failed")
		// events not flushed are lost with the writer (documented: Close *tries* to flush)
		r.Events = r.Events[:r.FlushedCB]
	} else {
		// every completed event has been flushed by Close
		if r.W == nil && r.FlushedCB < len(r.Events) {
			// no writer object existed => nothing buffered; events can only be buffered through a writer
		}
	}
	r.endCall(c)
	if err == nil && r.FlushedCB != len(r.Events) {
		return violationf("q-close-flush", r.step, "Queue.Close returned nil but only %d of %d completed events were reported as flushed", r.FlushedCB, len(r.Events))
	}
	r.Certain = len(r.Events)
	r.cur = nil // an unfinished event is dropped with the writer
	return nil
}

func (r *QRunner) reopen(file bool) *Violation {
	if r.O.Faults && (!r.Disk.FaultOver() || r.unconfirmed) {
		r.count("noop")
		return nil
	}
	if r.inSect {
		r.R.Done()
		r.inSect = false
	}
	if v := r.closeQueue(); v != nil {
		return v
	}
	if file {
		if err := r.F.Close(); err != nil {
			return violationf("q-close", r.step, "File.Close failed: %v", err)
		}
		r.F = nil
		if v := r.openFile(false); v != nil {
			return v
		}
		r.count("reopen-file")
	} else {
		if v := r.openQueue(); v != nil {
			return v
		}
		r.count("reopen-queue")
	}
	// the reader restarts at the first un-ACKed event
	r.consumed = r.Acked
	r.curEv, r.curOff = -1, 0
	return nil
}

func isQKind(err error, k pq.ErrKind) bool { return txerr.Is(k, err) }

// Step executes one step.
func (r *QRunner) Step(s *QStep) *Violation {
	switch s.K {
	case QWrite:
		if r.inSect {
			r.count("noop")
			return nil
		}
		n := s.A
		if n <= 0 {
			return nil
		}
		w, v := r.writer()
		if v != nil {
			return v
		}
		buf := make([]byte, n)
		EventFill(len(r.Events), len(r.cur), buf)
		c := r.beginCall("write")
		got, err := w.Write(buf)
		r.endCall(c)
		if err != nil {
			if !r.mayFail() {
				return violationf("q-write-error", r.step, "Writer.Write(%d bytes) failed on an unbounded file: %v", n, err)
			}
			r.count("write-failed")
			r.debugf("Write failed: %v", err)
			r.writeFailed = true
			return nil // a failing Write consumed nothing
		}
		if got != n {
			return violationf("q-write-short", r.step, "Writer.Write(%d bytes) returned %d", n, got)
		}
		r.cur = append(r.cur, buf...)
		r.count("write")
		if len(r.cur) > n {
			r.count("multi-chunk-event")
		}

	case QNext:
		if r.inSect || len(r.cur) == 0 {
			r.count("noop")
			return nil
		}
		w, v := r.writer()
		if v != nil {
			return v
		}
		c := r.beginCall("next")
		err := w.Next()
		// the event is complete in the buffer, even if the implicit flush failed
		ev := r.cur
		r.cur = nil
		r.Events = append(r.Events, ev)
		r.endCall(c)
		r.classifyEvent(len(ev))
		if err != nil {
			if !r.mayFail() {
				return violationf("q-next-error", r.step, "Writer.Next failed on an unbounded file: %v", err)
			}
			r.count("next-failed")
			r.debugf("Next failed: %v", err)
			r.writeFailed = true
		}
		r.count("event")

	case QFlush:
		if r.inSect {
			r.count("noop")
			return nil
		}
		w, v := r.writer()
		if v != nil {
			return v
		}
		c := r.beginCall("flush")
		err := w.Flush()
		r.endCall(c)
		if err != nil {
			if !r.mayFail() {
				return violationf("q-flush-error", r.step, "Writer.Flush failed on an unbounded file: %v", err)
			}
			r.count("flush-failed")
			r.debugf("Flush failed: %s", errChain(err))
			r.writeFailed = true
			// C12: once every flushed event has been ACKed the file is empty but for the
			// header page and the last event page: the buffered events must fit again
			if r.Acked == r.FlushedCB && !r.faultHit() {
				buffered := len(r.cur) + 4
				for _, ev := range r.Events[r.FlushedCB:] {
					buffered += len(ev) + 4
				}
				payload := int(r.P.Cfg.PageSize) - 28
				// the meta area (write-ahead and free list pages; it grows in steps up to 16 pages in these
				// histories and is never given back to the data area) is part of C12's "constant"
				metaArea := int(r.F.VerifState().MetaTotal)
				if metaArea < 8 {
					metaArea = 8
				}
				if need := buffered/(payload-3) + 2; need+metaArea+6 <= int(r.P.Cfg.MaxPages) {
					return violationf("q-stuck", r.step, "all %d flushed events are ACKed, the %d buffered bytes need about %d of %d pages, but Flush still fails: %v",
						r.FlushedCB, buffered, need, r.P.Cfg.MaxPages, err)
				}
			}
			return nil
		}
		if r.writeFailed && r.FlushedCB > r.Certain {
			r.count("flush-after-failure")
		}
		if r.FlushedCB > c.FlushedB4 {
			r.unconfirmed = false // a write transaction committed
		}
		r.Certain = len(r.Events)
		if r.FlushedCB != len(r.Events) {
			return violationf("q-flush-callback", r.step, "Flush returned nil with %d completed events, Flushed callbacks reported %d in total", len(r.Events), r.FlushedCB)
		}
		r.count("flush")

	case QRBegin:
		if r.inSect {
			r.count("noop")
			return nil
		}
		if err := r.reader().Begin(); err != nil {
			return violationf("q-reader-begin", r.step, "Reader.Begin failed: %v", err)
		}
		r.inSect = true
		r.certainAtBegin = r.Certain
		r.possibleAtBegin = len(r.Events)
		r.count("reader-section")

	case QRDone:
		if !r.inSect {
			r.count("noop")
			return nil
		}
		r.R.Done()
		r.inSect = false

	case QRNext:
		if !r.inSect {
			r.count("noop")
			return nil
		}
		return r.readerNext()

	case QRRead:
		if !r.inSect {
			r.count("noop")
			return nil
		}
		return r.readerRead(s.A)

	case QAck:
		if r.inSect {
			r.count("noop")
			return nil
		}
		n := r.consumed - r.Acked
		if s.A < n {
			n = s.A
		}
		if n <= 0 {
			r.count("noop")
			return nil
		}
		c := r.beginCall("ack")
		err := r.Q.ACK(uint(n))
		if err == nil {
			r.Acked += n
		}
		r.endCall(c)
		if err != nil {
			if r.faultHit() {
				// the affected operation returned an error; nothing was removed
				r.count("ack-failed-by-fault")
				if r.AckedCB != r.Acked {
					return violationf("q-ack-callback", r.step, "ACK failed, but the ACKed callbacks reported %d events in total, %d were ACKed before", r.AckedCB, r.Acked)
				}
				return nil
			}
			return violationf("q-ack-error", r.step, "ACK(%d) failed (consumed %d, acked %d): %v", n, r.consumed, r.Acked, err)
		}
		if r.AckedCB != r.Acked {
			return violationf("q-ack-callback", r.step, "ACKed callbacks reported %d events in total, %d were ACKed", r.AckedCB, r.Acked)
		}
		r.count("ack")
		r.unconfirmed = false // a write transaction committed
		if r.writeFailed {
			r.count("ack-after-write-failure")
		}

	case QReopenQ:
		return r.reopen(false)
	case QReopenF:
		return r.reopen(true)

	case QProbe:
		return r.probe()

	case QMisuse:
		return r.misuse()

	case QFill:
		return r.fill(s.A)

	case QDrain:
		return r.drainStep(s.A)

	case QAckAll:
		return r.Step(&QStep{K: QAck, A: 1 << 30})

	default:
		return violationf("harness", r.step, "unknown queue step %q", s.K)
	}
	return nil
}

func (r *QRunner) classifyEvent(n int) {
	ps := int(r.P.Cfg.PageSize)
	payload := ps - 28
	switch {
	case n+4 > payload:
		r.count("event-spans-pages")
	}
	for _, d := range []int{-1, 0, 1} {
		for k := 1; k <= 3; k++ {
			if n == k*payload-4+d || n == k*payload+d || n == k*payload-8+d {
				r.count("event-boundary-size")
			}
		}
	}
	if n <= 2 {
		r.count("event-tiny")
	}
}

func (r *QRunner) readerNext() *Violation {
	// a partially read event is skipped by Next
	if r.curEv >= 0 {
		if r.curOff < len(r.Events[r.curEv]) {
			r.count("skip-partial")
		}
		r.consumed = r.curEv + 1
		r.curEv = -1
	}
	idx := r.consumed
	n, err := r.R.Next()
	if err != nil {
		return violationf("q-reader-next", r.step, "Reader.Next failed: %v", err)
	}
	if n == 0 {
		if idx < r.certainAtBegin {
			return violationf("q-lost", r.step, "Reader.Next reports no event, but event #%d (of %d flushed before the reader transaction began) has not been delivered", idx, r.certainAtBegin)
		}
		r.count("reader-end")
		return nil
	}
	if idx >= r.possibleAtBegin {
		return violationf("q-phantom", r.step, "Reader.Next returned an event of %d bytes, but only %d events had been completed when the reader transaction began (expected event #%d)", n, r.possibleAtBegin, idx)
	}
	if want := len(r.Events[idx]); n != want {
		return violationf("q-size", r.step, "Reader.Next returned size %d for event #%d, written size is %d", n, idx, want)
	}
	r.curEv, r.curOff = idx, 0
	r.count("reader-next")
	return nil
}

func (r *QRunner) readerRead(bufLen int) *Violation {
	if bufLen <= 0 {
		bufLen = 1
	}
	buf := make([]byte, bufLen)
	n, err := r.R.Read(buf)
	if err != nil {
		return violationf("q-reader-read", r.step, "Reader.Read failed: %v", err)
	}
	if r.curEv < 0 {
		if n != 0 {
			return violationf("q-read-nothing", r.step, "Reader.Read returned %d bytes although no event is being read", n)
		}
		return nil
	}
	ev := r.Events[r.curEv]
	want := len(ev) - r.curOff
	if want > bufLen {
		want = bufLen
	}
	if n != want {
		return violationf("q-read-len", r.step, "Reader.Read(buffer of %d) of event #%d at offset %d returned %d bytes, expected %d", bufLen, r.curEv, r.curOff, n, want)
	}
	if !bytes.Equal(buf[:n], ev[r.curOff:r.curOff+n]) {
		return violationf("q-content", r.step, "event #%d (size %d): bytes [%d,%d) differ from what was written (first diff at %d)",
			r.curEv, len(ev), r.curOff, r.curOff+n, r.curOff+firstDiff(buf[:n], ev[r.curOff:r.curOff+n]))
	}
	if n < len(ev) {
		r.count("partial-read")
	}
	r.curOff += n
	if r.curOff == len(ev) {
		r.consumed = r.curEv + 1
		r.curEv = -1
		r.count("event-read")
	}
	return nil
}

// MaxDrainEvent bounds the event size a drain accepts (generated events are
// far smaller); protects the harness against bogus sizes read from a corrupted queue.
var MaxDrainEvent = 4 << 20

// DrainCopy opens a second queue object on the file and reads everything a
// reader can get (without ACK). Returns the events.
func DrainCopy(f *txfile.File) (events [][]byte, v *Violation) {
	d, err := pq.NewStandaloneDelegate(f)
	if err != nil {
		return nil, violationf("q-drain", -1, "NewStandaloneDelegate failed: %v", err)
	}
	q, err := pq.New(d, pq.Settings{})
	if err != nil {
		return nil, violationf("q-drain", -1, "pq.New failed: %v", err)
	}
	defer q.Close()
	rd := q.Reader()
	if err := rd.Begin(); err != nil {
		return nil, violationf("q-drain", -1, "Reader.Begin failed: %v", err)
	}
	defer rd.Done()
	for {
		n, err := rd.Next()
		if err != nil {
			return nil, violationf("q-drain", -1, "Reader.Next failed after %d events: %v", len(events), err)
		}
		if n <= 0 {
			return events, nil
		}
		if n > MaxDrainEvent {
			return nil, violationf("q-size", -1, "Reader.Next reports an event of %d bytes after %d events (larger than anything ever written)", n, len(events))
		}
		buf := make([]byte, n)
		got := 0
		for got < n {
			k, err := rd.Read(buf[got:])
			if err != nil {
				return nil, violationf("q-drain", -1, "Reader.Read failed in event %d: %v", len(events), err)
			}
			if k == 0 {
				return nil, violationf("q-drain", -1, "Reader.Read returned 0 after %d of %d bytes of event %d", got, n, len(events))
			}
			got += k
		}
		events = append(events, buf)
		if len(events) > 200000 {
			return nil, violationf("q-drain", -1, "reader does not terminate")
		}
	}
}

// probe compares counters with an independent ground truth: what a fresh
// reader can actually drain.
func (r *QRunner) probe() *Violation {
	if r.O.Faults && !r.Disk.FaultOver() {
		// the probe opens a second queue handle, which begins a write transaction (NewStandaloneDelegate)
		r.count("noop")
		return nil
	}
	drained, v := DrainCopy(r.F)
	if v != nil {
		v.Item = r.step
		return v
	}
	r.unconfirmed = false // DrainCopy begins a write transaction (NewStandaloneDelegate) before it reads
	D := len(drained)
	// content of the drainable range (C05/C06: FIFO, byte identical, starts at first un-ACKed)
	if r.Acked+D > len(r.Events) {
		return violationf("q-phantom", r.step, "a fresh reader drains %d events after %d ACKed, but only %d events were ever completed", D, r.Acked, len(r.Events))
	}
	for i, ev := range drained {
		if !bytes.Equal(ev, r.Events[r.Acked+i]) {
			return violationf("q-content", r.step, "fresh reader: event #%d (position %d after %d ACKed) differs from what was written (size %d vs %d, first diff %d)",
				r.Acked+i, i, r.Acked, len(ev), len(r.Events[r.Acked+i]), firstDiff(ev, r.Events[r.Acked+i]))
		}
	}
	if r.Acked+D < r.Certain {
		return violationf("q-lost", r.step, "a fresh reader drains events [%d,%d), but %d events were flushed explicitly", r.Acked, r.Acked+D, r.Certain)
	}
	r.count("probe")
	if !r.O.CheckCounters {
		return nil
	}
	pending, err := r.Q.Pending()
	if err != nil {
		return violationf("q-pending", r.step, "Pending failed: %v", err)
	}
	active, err := r.Q.Active()
	if err != nil {
		return violationf("q-active", r.step, "Active failed: %v", err)
	}
	if pending != D || int(active) != D {
		return violationf("q-counters", r.step, "Pending=%d Active=%d, but flushed-minus-ACKed is %d (ACKed %d, a fresh reader drains %d)", pending, active, D, r.Acked, D)
	}
	if r.FlushedCB != r.Acked+D {
		return violationf("q-flushed-callback", r.step, "Flushed callbacks reported %d events in total, %d are flushed (ACKed %d + drainable %d)", r.FlushedCB, r.Acked+D, r.Acked, D)
	}
	if r.AckedCB != r.Acked {
		return violationf("q-ack-callback", r.step, "ACKed callbacks reported %d events in total, %d were ACKed", r.AckedCB, r.Acked)
	}
	if o := r.qobs; o != nil {
		if o.flushedOK != r.FlushedCB || o.ackedOK != r.AckedCB {
			return violationf("q-observer-totals", r.step, "the Observer callbacks reported %d flushed / %d ACKed events in successful operations, the Flushed/ACKed callbacks %d / %d",
				o.flushedOK, o.ackedOK, r.FlushedCB, r.AckedCB)
		}
		r.count("observer-totals-checked")
	}
	if r.inSect && r.curEv < 0 {
		avail, err := r.R.Available()
		if err != nil {
			return violationf("q-available", r.step, "Reader.Available failed: %v", err)
		}
		want := r.Acked + D - r.consumed
		if int(avail) != want {
			return violationf("q-available", r.step, "Reader.Available=%d, flushed events not yet consumed by the reader: %d (flushed %d, consumed %d)", avail, want, r.Acked+D, r.consumed)
		}
		r.count("probe-available")
	}
	switch {
	case D == 0 && r.Acked > 0:
		r.count("probe-empty-after-ack")
	case r.Acked > 0:
		r.count("probe-partially-acked")
	}
	return nil
}

// misuse runs the queue cells of the C15 matrix (implemented in queue_misuse.go).
func (r *QRunner) misuse() *Violation {
	if r.O.Faults && !r.Disk.FaultOver() {
		r.count("noop")
		return nil
	}
	return r.queueMisuse()
}

// fill writes events until a writer call reports an error (at most 600 events).
func (r *QRunner) fill(seed int) *Violation {
	if r.inSect {
		r.count("noop")
		return nil
	}
	if !r.bounded() {
		return nil
	}
	payload := int(r.P.Cfg.PageSize) - 28
	rnd := NewRand(uint64(seed)*7919 + 13)
	maxEv := 3 * payload
	if r.P.Cfg.MaxPages < 40 {
		maxEv = payload + payload/2
	}
	r.writeFailed = false
	for i := 0; i < 600 && !r.writeFailed; i++ {
		size := 1 + int(rnd()%uint64(maxEv))
		switch rnd() % 6 {
		case 0:
			size = payload - 4
		case 1:
			size = 1 + int(rnd()%40)
		}
		for rest := size; rest > 0 && !r.writeFailed; {
			n := rest
			if rnd()%3 == 0 && rest > 1 {
				n = 1 + int(rnd()%uint64(rest))
			}
			if v := r.Step(&QStep{K: QWrite, A: n}); v != nil {
				return v
			}
			rest -= n
		}
		if r.writeFailed {
			break
		}
		if v := r.Step(&QStep{K: QNext}); v != nil {
			return v
		}
	}
	if r.writeFailed {
		r.count("fill-to-error")
	}
	if qDebug {
		st := r.F.VerifState()
		r.debugf("fill done: events=%d flushedCB=%d acked=%d injected=%d dataEnd=%d metaEnd=%d metaTotal=%d dataFree=%v metaFree=%v wal=%d", len(r.Events), r.FlushedCB, r.Acked, r.Disk.Injected(), st.DataEnd, st.MetaEnd, st.MetaTotal, st.DataFree, st.MetaFree, len(st.WAL))
	}
	return nil
}

// drainStep reads up to max events completely (0 = everything available).
func (r *QRunner) drainStep(max int) *Violation {
	if r.inSect {
		r.count("noop")
		return nil
	}
	if v := r.Step(&QStep{K: QRBegin}); v != nil {
		return v
	}
	n := 0
	for max == 0 || n < max {
		before := r.Counters["reader-next"]
		if v := r.Step(&QStep{K: QRNext}); v != nil {
			return v
		}
		if r.Counters["reader-next"] == before {
			break
		}
		if v := r.Step(&QStep{K: QRRead, A: 1 << 20}); v != nil {
			return v
		}
		n++
	}
	r.Counters["drained-events"] += n
	return r.Step(&QStep{K: QRDone})
}

// SpaceBound returns the C12 bound on the data pages the queue may hold with
// the given un-ACKed events: header page + pages spanned by the un-ACKed
// events + pages spanned by the most recent event + constant.
func (r *QRunner) SpaceBound() (bound int, unacked int) {
	payload := int(r.P.Cfg.PageSize) - 28
	total := 0
	for _, ev := range r.Events[r.Acked:] {
		total += len(ev) + 4
	}
	total += len(r.cur) + 4
	pagesUnacked := (total + payload - 4) / (payload - 3) // headers never straddle pages: <= 3 bytes lost per page
	last := 0
	if n := len(r.Events); n > 0 {
		last = (len(r.Events[n-1]) + 4 + payload - 1) / payload
	}
	// +4: the first un-ACKed event may start in the middle of a page, ACK keeps
	// one page before the read position, the last page is never freed, and the
	// writer's current page; all independent of the traffic so far.
	return 1 + pagesUnacked + last + 4, len(r.Events) - r.Acked
}

// CheckSpace applies the C12 space bound at a quiescent point.
func (r *QRunner) CheckSpace() *Violation {
	if !r.Obsv.HaveLast {
		return nil
	}
	alloc := int(r.Obsv.Last.DataAllocated)
	bound, unacked := r.SpaceBound()
	if alloc > bound {
		return violationf("q-space", r.step, "queue holds %d data pages with %d un-ACKed events; bound (header page + pages of un-ACKed events + pages of the most recent event + 4) is %d; %d events passed through so far",
			alloc, unacked, bound, len(r.Events))
	}
	if uint(alloc) > r.maxPagesUsed {
		r.maxPagesUsed = uint(alloc)
	}
	return nil
}
