package harness

import (
	"github.com/elastic/go-txfile/pq"
)

func qKind(err error) string {
	kinds := []struct {
		k pq.ErrKind
		n string
	}{
		{pq.QueueClosed, "QueueClosed"}, {pq.ReaderClosed, "ReaderClosed"}, {pq.WriterClosed, "WriterClosed"},
		{pq.ACKEmptyQueue, "ACKEmptyQueue"}, {pq.ACKTooMany, "ACKTooMany"}, {pq.InactiveTx, "InactiveTx"},
		{pq.UnexpectedActiveTx, "UnexpectedActiveTx"}, {pq.InvalidParam, "InvalidParam"}, {pq.InitFailed, "InitFailed"},
	}
	for _, k := range kinds {
		if isQKind(err, k.k) {
			return k.n
		}
	}
	return "other"
}

// queueMisuse executes the queue part of the misuse matrix on the current
// queue: reader without Begin, Begin twice, ACK too many / on an empty queue,
// and every Reader/Writer/ACK method on a closed queue. Afterwards the queue
// is reopened and must still contain exactly the model's events.
func (r *QRunner) queueMisuse() *Violation {
	if r.inSect {
		r.R.Done()
		r.inSect = false
	}
	c := &cellCtx{r: nil, item: r.step}
	cells := 0
	expect := func(name string, fn func() error, kinds ...string) *Violation {
		cells++
		var err error
		var pv *Violation
		func() {
			defer func() {
				if x := recover(); x != nil {
					pv = violationf("misuse-panic", c.item, "%s paniced: %v", name, x)
				}
			}()
			err = fn()
		}()
		if pv != nil {
			return pv
		}
		if err == nil {
			return violationf("misuse-accepted", c.item, "%s returned no error, expected %v", name, kinds)
		}
		got := qKind(err)
		for _, k := range kinds {
			if got == k {
				return nil
			}
		}
		return violationf("misuse-kind", c.item, "%s returned error kind %s (%v), documented kind is %v", name, got, err, kinds)
	}

	rd := r.reader()
	w, v := r.writer()
	if v != nil {
		return v
	}
	buf := make([]byte, 16)

	// reader without an active transaction
	for _, v := range []*Violation{
		expect("Reader.Next without Begin", func() error { _, err := rd.Next(); return err }, "InactiveTx"),
		expect("Reader.Read without Begin", func() error { _, err := rd.Read(buf); return err }, "InactiveTx"),
		expect("Reader.Available without Begin", func() error { _, err := rd.Available(); return err }, "InactiveTx"),
	} {
		if v != nil {
			return v
		}
	}
	// Done without Begin is a no-op
	rd.Done()
	cells++
	// Begin twice
	if err := rd.Begin(); err != nil {
		return violationf("q-reader-begin", r.step, "Reader.Begin failed: %v", err)
	}
	if v := expect("Reader.Begin while a read transaction is active", rd.Begin, "UnexpectedActiveTx"); v != nil {
		rd.Done()
		return v
	}
	rd.Done()

	// ACK more than pending / on an empty queue
	pending, err := r.Q.Pending()
	if err != nil {
		return violationf("q-pending", r.step, "Pending failed: %v", err)
	}
	if pending > 0 {
		if v := expect("ACK(pending+1)", func() error { return r.Q.ACK(uint(pending + 1)) }, "ACKTooMany"); v != nil {
			return v
		}
		if v := expect("ACK(huge)", func() error { return r.Q.ACK(1 << 40) }, "ACKTooMany"); v != nil {
			return v
		}
	} else {
		if v := expect("ACK(1) on an empty queue", func() error { return r.Q.ACK(1) }, "ACKEmptyQueue", "ACKTooMany"); v != nil {
			return v
		}
	}
	if err := r.Q.ACK(0); err != nil {
		return violationf("misuse-error", r.step, "ACK(0) returned %v", err)
	}
	cells++

	// the rejected calls must not have changed anything
	if v := r.probe(); v != nil {
		v.Msg = "after rejected queue calls: " + v.Msg
		return v
	}

	// closed queue
	q := r.Q
	if v := r.closeQueue(); v != nil {
		return v
	}
	for _, v := range []*Violation{
		expect("Writer.Write on closed queue", func() error { _, err := w.Write(buf); return err }, "WriterClosed"),
		expect("Writer.Next on closed queue", w.Next, "WriterClosed"),
		expect("Writer.Flush on closed queue", w.Flush, "WriterClosed"),
		expect("Reader.Begin on closed queue", rd.Begin, "ReaderClosed"),
		expect("Reader.Next on closed queue", func() error { _, err := rd.Next(); return err }, "ReaderClosed"),
		expect("Reader.Read on closed queue", func() error { _, err := rd.Read(buf); return err }, "ReaderClosed"),
		expect("Reader.Available on closed queue", func() error { _, err := rd.Available(); return err }, "ReaderClosed"),
	} {
		if v != nil {
			return v
		}
	}
	// objects obtained from the closed queue must be closed as well
	for _, v := range []*Violation{
		expect("Queue.Reader().Begin after Queue.Close", func() error { return q.Reader().Begin() }, "ReaderClosed"),
		expect("Queue.Writer() after Queue.Close", func() error {
			w2, err := q.Writer()
			if err != nil {
				return err
			}
			_, err = w2.Write(buf)
			return err
		}, "QueueClosed", "WriterClosed"),
	} {
		if v != nil {
			return v
		}
	}
	// ACK on a closed queue: the acker (if one was created) is closed
	var ackErr error
	var pv *Violation
	func() {
		defer func() {
			if x := recover(); x != nil {
				pv = violationf("misuse-panic", r.step, "ACK on closed queue paniced: %v", x)
			}
		}()
		ackErr = q.ACK(1)
	}()
	cells++
	if pv != nil {
		return pv
	}
	if ackErr == nil {
		return violationf("misuse-accepted", r.step, "ACK(1) on a closed queue returned no error")
	}
	if k := qKind(ackErr); k != "QueueClosed" {
		return violationf("misuse-kind", r.step, "ACK(1) on a closed queue returned error kind %s (%v), documented kind is QueueClosed", k, ackErr)
	}
	if err := q.Close(); err != nil {
		return violationf("misuse-error", r.step, "second Queue.Close returned %v", err)
	}
	cells++

	// a pristine handle: reader and acker are created lazily, so on a handle on which neither
	// Reader() nor ACK()/Active()/Pending() was ever called before Close, everything obtained
	// after Close must be closed as well (and must not touch the file)
	if v := r.openQueue(); v != nil {
		return v
	}
	q2 := r.Q
	if v := r.closeQueue(); v != nil {
		return v
	}
	for _, v := range []*Violation{
		expect("Queue.Reader().Begin after Close of a handle whose reader was never requested", func() error { return q2.Reader().Begin() }, "ReaderClosed"),
		expect("Queue.Reader().Next after Close of a handle whose reader was never requested", func() error { _, err := q2.Reader().Next(); return err }, "ReaderClosed"),
		expect("Queue.ACK(1) after Close of a handle whose acker was never requested", func() error { return q2.ACK(1) }, "QueueClosed"),
		expect("Queue.Writer() after Close of a handle whose writer was never requested", func() error {
			w2, err := q2.Writer()
			if err != nil {
				return err
			}
			_, err = w2.Write(buf)
			return err
		}, "QueueClosed", "WriterClosed"),
	} {
		if v != nil {
			return v
		}
	}

	// reopen: the queue still holds exactly the model's events
	if v := r.openQueue(); v != nil {
		return v
	}
	r.consumed = r.Acked
	r.curEv, r.curOff = -1, 0
	if v := r.probe(); v != nil {
		v.Msg = "after calls on the closed queue and reopening: " + v.Msg
		return v
	}
	r.Counters["misuse-cell"] += cells
	r.Counters["misuse-matrix"]++
	return nil
}
