package harness

import (
	"encoding/json"
	"os"
	"sort"
	"sync"
)

// ShardStats is what one test process reports to the driver.
type ShardStats struct {
	Property    string            `json:"property"`
	Evaluations int               `json:"evaluations"`
	Nontrivial  []uint64          `json:"nontrivial_hashes"`
	NontrivialN int               `json:"nontrivial_n"` // may exceed len(Nontrivial) if capped
	Classes     map[string]int    `json:"classes"`      // number of cases in which the class occurred
	Totals      map[string]int    `json:"totals"`       // summed counters
	Samples     []json.RawMessage `json:"samples"`
	Failure     *Replay           `json:"failure,omitempty"`
	Failures    int               `json:"failures"`
	Excluded    map[string]int    `json:"excluded,omitempty"` // cases excluded because of known findings
	Completed   bool              `json:"completed"`
}

// Recorder accumulates per case statistics inside a test process.
type Recorder struct {
	mu       sync.Mutex
	prop     string
	kind     string
	st       ShardStats
	seen     map[uint64]struct{}
	maxHash  int
	failSize int
}

func NewRecorder(prop, kind string) *Recorder {
	return &Recorder{
		prop: prop,
		kind: kind,
		st: ShardStats{
			Property: prop,
			Classes:  map[string]int{},
			Totals:   map[string]int{},
			Excluded: map[string]int{},
		},
		seen:    map[uint64]struct{}{},
		maxHash: 400000,
	}
}

// SetKind changes the replay kind recorded for subsequent failures.
func (r *Recorder) SetKind(kind string) {
	r.mu.Lock()
	r.kind = kind
	r.mu.Unlock()
}

// Case records one executed case.
func (r *Recorder) Case(progJSON []byte, hash uint64, counters map[string]int, nontrivial bool, v *Violation) {
	r.mu.Lock()
	defer r.mu.Unlock()
	r.st.Evaluations++
	for k, n := range counters {
		if n > 0 {
			r.st.Classes[k]++
			r.st.Totals[k] += n
		}
	}
	if nontrivial {
		if _, dup := r.seen[hash]; !dup {
			r.st.NontrivialN++
			if len(r.seen) < r.maxHash {
				r.seen[hash] = struct{}{}
			}
			if len(r.st.Samples) < 3 && len(progJSON) < 6000 {
				r.st.Samples = append(r.st.Samples, json.RawMessage(append([]byte(nil), progJSON...)))
			}
		}
	}
	if v != nil {
		r.st.Failures++
		if r.st.Failure == nil || len(progJSON) <= r.failSize {
			r.failSize = len(progJSON)
			r.st.Failure = &Replay{
				Property: r.prop,
				Kind:     r.kind,
				Clause:   v.Clause,
				Message:  v.Msg,
				Program:  json.RawMessage(append([]byte(nil), progJSON...)),
			}
		}
	}
}

// Exclude counts a case skipped because it would hit a known finding.
func (r *Recorder) Exclude(name string) {
	r.mu.Lock()
	r.st.Excluded[name]++
	r.mu.Unlock()
}

// AddTotal adds to a summed counter without a case.
func (r *Recorder) AddTotal(name string, n int) {
	r.mu.Lock()
	r.st.Totals[name] += n
	r.mu.Unlock()
}

// Failure returns the smallest failing case seen so far.
func (r *Recorder) Failure() *Replay {
	r.mu.Lock()
	defer r.mu.Unlock()
	return r.st.Failure
}

// Flush writes the statistics to the file named by VERIF_STATS (if set).
func (r *Recorder) Flush(completed bool) {
	r.mu.Lock()
	defer r.mu.Unlock()
	path := os.Getenv("VERIF_STATS")
	if path == "" {
		return
	}
	r.st.Completed = completed
	r.st.Nontrivial = r.st.Nontrivial[:0]
	for h := range r.seen {
		r.st.Nontrivial = append(r.st.Nontrivial, h)
	}
	sort.Slice(r.st.Nontrivial, func(i, j int) bool { return r.st.Nontrivial[i] < r.st.Nontrivial[j] })
	b, err := json.Marshal(&r.st)
	if err == nil {
		_ = os.WriteFile(path, b, 0o644)
	}
}
