package harness

// PropSpec describes how the driver runs the check of one property.
type PropSpec struct {
	ID       string
	Test     string // go test function name
	Kind     string // replay kind
	Race     bool   // build/run with the race detector
	Level    string // evidence level
	Quick    int    // total generated cases, quick tier (split over shards)
	Thorough int    // total generated cases, thorough tier
	Shards   int    // max number of parallel processes (0 = 16)
	Rule     string // non-triviality rule (evidence)
	Assume   []string
	// FuzzTargets are native fuzz functions run in the thorough tier only.
	FuzzTargets []string
	FuzzSeconds int
	// RealFS: the check runs on the OS file system (C18)
	RealFS bool
}

// Specs lists all claimed properties.
var Specs = map[string]*PropSpec{}

func register(s *PropSpec) { Specs[s.ID] = s }
