#!/usr/bin/env python3
"""Regenerates MANIFEST.json from the table below (run after adding a check)."""
import json, subprocess, os

HOOK_COMMITS = subprocess.run(["git", "-C", "/repo", "log", "--format=%H", "--grep=^verif:"],
                              capture_output=True, text=True).stdout.split()

CHECKS = {
 "C01": dict(level="fault_enumeration",
  text="Crash-point enumeration over generated histories: one execution on the simulated disk yields the op log; for every log position after creation every crash image (durable prefix + subsets of un-synced page writes/truncates, torn header writes) is reopened through the normal open path and must expose exactly an allowed model state (last returned commit, or the commit in progress), pass the allocator partition check and run a suffix of transactions; on a sample of the recovered images (torn-header images preferred) the suffix is recorded and its own crash images are enumerated too (crash during the first transactions after a crash recovery). Small-scope exhaustive per history (all 2^p subsets up to a bound, structured families beyond), histories sampled.",
  note="Durability model: a completed Sync makes all earlier writes durable; un-synced page writes may each be lost independently; no sector tearing inside data pages; creation crash excluded.",
  technique="fault enumeration: rapid-generated histories x exhaustive/structured crash-image enumeration on a simulated disk, model oracle",
  design="4/C01"),
 "C08": dict(level="fault_enumeration",
  text="I/O fault enumeration: each generated history is run fault-free to count the I/O calls, then re-run with fault plans (kind, ordinal, burst, mode) - sampled in quick, complete sweep for small histories in thorough - checking: no panic/hang, a commit (or a Begin that has to restore the file header) hit by a fault fails, in-process readers keep the last successful state, post-fault transactions commit, clean reopen shows an allowed state, file stays usable, a failed Commit leaves the allocator state exactly as it was when the transaction began and the page ownership partition intact (also for a constructed commit that moves the last data pages and overflow pages into the meta area by one request); for runs with a commit attempt that failed by syncs only, the crash images from that attempt to the end of the run are enumerated and must show, completely, the last successful state, the commit in progress or such an unconfirmed attempt.",
  note="Open finding F17 is reported as KNOWN-FINDING and recognised by its history pattern (a size/truncate/mmap failure hitting the tail of a Commit; dedicated oracle clause), F11 and F16 are repaired; writer drained so that call ordinals are program-determined.",
  technique="fault injection sweep over rapid-generated histories on a simulated disk, model oracle",
  design="4/C08"),
 "C16": dict(level="fault_enumeration",
  text="Header damage enumeration on images taken right after successful commits of generated histories: single-bit flips (all 672 per slot in thorough), byte-prefix tears (zero / other slot / garbage), zeroed page, random damage, both headers damaged, txids around 2^63/2^64 re-signed by the harness; expectation from an independent header validity predicate; recovered txid, contents, partition and suffix transactions checked.",
  note="Checksum collisions (damaged header still valid under the independent predicate) are skipped and counted; only the 84 header bytes are damaged.",
  technique="fault enumeration over header bytes of rapid-generated file images, independent validity predicate as oracle",
  design="4/C16"),
 "C03": dict(
  text="Model-based exploration: generated transaction histories (all write modes, flush, checkpoints, rollbacks, reopens, stalled writer batches) executed against a map model; every live page and the root compared after every item and inside transactions. Right level: the property is a functional equivalence over histories, which a reference model decides case by case; absence is not proven.",
  note="Trusts the simulated disk's coherent-mmap semantics and the map model; bounds: <=24 items x 14 ops, <=400 pages, page sizes 1-4 KiB.",
  technique="model-based property testing (rapid) with stateful program generation and delta-debugging",
  design="4/C03"),
 "C04": dict(
  text="Exploration with an ownership oracle: every id returned by Alloc/AllocN is checked against the model's live sets and the file's internal page sets; after every item the partition live/data-free/meta-free/meta-in-use must be disjoint and live contents are re-verified.",
  note="Trusts the verif-tag snapshot hook to copy allocator/WAL state faithfully; bounded history length.",
  technique="model-based property testing (rapid) with partition invariant over hook snapshot",
  design="4/C04"),
 "C07": dict(
  text="Twin execution: H;T;K versus H;K (plus a determinism control run) for generated aborted transactions T (rollback, close, failed commit); compares every outcome, allocated id and byte read in K, capacity probes and the allocator state; additionally the in-memory state and the reported FileStats right after T must equal those right before T, and on a bounded file the file is not larger after T than before it or than the committed end markers require.",
  note="Cross-run comparison is skipped once a transaction enabled the overflow area (page identities inside the meta area are map-order dependent); identities inside the meta area are never compared across runs.",
  technique="differential (twin-run) property testing with rapid-generated programs",
  design="4/C07"),
 "C10": dict(
  text="Twin execution of a generated program with and without interposed close/reopen items: outcomes, bytes read, capacity probes and user-visible allocator state must agree; inside one run the complete internal state before Close must equal the state after Open. Generators force multi-page free lists / overwrite mappings, regions >= 255 pages (also initial meta areas of 254-257 pages), remaps, and full files whose metadata lives in the overflow area and is released again.",
  note="Page ids after reopen are not required to match (only outcomes); differences must be stable under repetition (map-order nondeterminism of meta-area internals is filtered); thorough tier adds native fuzzing of the (de)serialisers.",
  technique="differential (twin-run) property testing + round-trip invariant, rapid generators with shaping scenarios",
  design="4/C10"),
 "C11": dict(
  text="Exploration over long bounded histories with a capacity probe after every item: allocatable + live + meta area + 2 == max pages, file extent <= max size, FileStats equal model/hook values, every page below the data end marker accounted for.",
  note="Probe relies on exact rollback (C07); overflow-area transactions are excluded as the property states.",
  technique="model-based property testing (rapid) with conservation invariant",
  design="4/C11"),
 "C15": dict(
  text="For every generated prefix history the complete method x receiver-state matrix of Tx and Page (and, in the queue part, Reader/Writer/ACK) is executed under recover(): no panic, documented error kind, committed state and running transaction unchanged; includes a reader begun while the write transaction holds uncommitted allocations (their ids are out of range for it) and queue handles closed before reader/acker were ever requested.",
  note="Only documented error kinds are asserted; matrix is exhaustive per prefix, prefixes are sampled.",
  technique="property testing with exhaustive per-case enumeration of the misuse matrix",
  design="4/C15"),
 "C05": dict(
  text="Model-based exploration of the queue through its public Writer/Reader/ACK API on the simulated disk: generated event sizes (boundary biased around page and header boundaries), chunkings, flush points, reader sections with partial reads, ACKs and reopens, against a slice-of-events model with an interval oracle for implicit flushes; drain probes by a second queue object compare the durable content.",
  note="Single goroutine (one writer, one reader); page sizes 1024/4096; events up to ~40 KB; zero-length events excluded.",
  technique="model-based property testing (rapid) with boundary-biased generators",
  design="4/C05"),
 "C06": dict(level="fault_enumeration",
  text="Crash-point enumeration over generated producer/consumer histories: markers around every writer call / ACK / close; every crash image (subsets of un-synced writes, torn header) is reopened via txfile open + NewStandaloneDelegate + pq.New and drained; the delivered sequence must be exactly events [ACKed, flushed) for an allowed pair (flush / ACK in progress all-or-nothing); sampled images also append, drain and ACK (on a full file: ACK first, then the buffered event must be flushable). One in six crash histories runs fill-until-error / drain / ACK cycles on a 16-64 page file (ACK transactions using and releasing the overflow area). Clean close/reopen points are covered by histories with many reopen points (drain probe after each). A third part re-executes generated histories under I/O fault plans (write / short write / sync failures in the flush and ACK transactions): errors are returned, nothing is lost, duplicated or reordered, and after the failures stop (and after a clean reopen) the queue holds exactly the un-ACKed completed events.",
  note="Same durability model as C01; the documented Flushed callback tells which calls flushed implicitly.",
  technique="fault enumeration: rapid-generated queue histories x crash-image enumeration, event-range oracle",
  design="4/C06"),
 "C12": dict(
  text="Model-based exploration on small bounded files: fill-until-error / drain / ACK / retry cycles and steady produce-consume rounds with traffic far above the file size; writer errors must be errors (no loss, reorder, panic), reader and ACK must succeed on the full file, buffered events flush after space is freed, and FileStats.DataAllocated stays within header page + un-ACKed events + most recent event + constant.",
  note="Constant of the space bound is 4 pages; write buffer <= 8 pages, events <= 3 pages; file-size excess via the overflow area is recorded, not asserted.",
  technique="model-based property testing (rapid) with composite fill/drain steps and a space-bound invariant",
  design="4/C12"),
 "C17": dict(
  text="Exploration with counter probes at generated points of producer/consumer/reopen histories: Pending, Active, Reader.Available and the Flushed/ACKed callback totals are compared with an independent ground truth (what a second, fresh queue object can actually drain) and with the model's interval of possibly flushed events.",
  note="Available only probed between events; callback totals summed over all queue objects of the run.",
  technique="model-based property testing (rapid), drain-probe ground truth",
  design="4/C17"),
 "C14": dict(
  text="Model-based exploration of max-size changes on open: generated prior history, (including transactions that use the overflow area, and the shape 'file completely full, overflow transaction, then resize'), open with FlagUpdMaxSize to a larger / smaller / equal / unbounded limit (with and without Prealloc), opens with a max size but without the flag (in-memory limit of an unbounded file, ignored by a bounded one), lock-state probe, read and write transactions, capacity probes and further history, then a plain reopen; oracles: model equality, lock idle after open, exact capacity delta after growing, extent bound after shrinking, persisted limit.",
  note="A blocked Begin is detected via the lock-state hook rather than by timeout; exact grow delta only asserted when the data end was within the old limit (pages of the overflow area beyond the old limit count as used already); the extent bound after shrinking is not applied once a later transaction enabled the overflow area.",
  technique="model-based property testing (rapid) over (history, old max, new max, prealloc)",
  design="4/C14"),
 "C02": dict(
  text="Exploration with a harness-owned schedule under the race detector: one writer transaction per round (full op grammar, optional Flush, commit/rollback/close) with lazy readers begun before it and between its operations; the writer's Commit runs asynchronously and is parked by the simulated disk's gate at a generated disk call (data write k, data sync, header write, header sync) while old readers touch pages for the first time and new readers call Begin; every observation must equal the model state committed when the reader began; no Begin returns during a commit; Commit does not succeed while older readers are open.",
  note="Interleavings at the granularity of API calls, disk calls and lock states; finer preemption only via the race detector (simulated mmap is ordinary memory, so a page write racing with a reader is reported).",
  technique="property testing with generated schedules (rapid) + Go race detector, model oracle per reader snapshot",
  design="4/C02"),
 "C09": dict(
  text="Three generated case families under the race detector: (a) sequential histories covering every way a transaction or open-time maintenance step can end, with the lock state (hook) required idle whenever no transaction is open and Begin/BeginReadonly/Close returning at the end; (b) concurrent stress with readers, model writers, contenders and a closer, requiring silence of the race detector, termination, never two active writers and final model equality; (c) generated schedules of lock-operation sequences on a standalone instance of the real lock type, blocking operations run in goroutines (must not return early, must return when enabled).",
  note="(b) does not own the schedule (statistical for deadlocks, deterministic for races once both sites execute); watchdog 120 s.",
  technique="property testing (rapid): sequential invariant + concurrent stress under -race + schedule exploration on the real lock object",
  design="4/C09"),
 "C13": dict(
  text="Two-goroutine producer/consumer scenarios on one queue under the race detector with generated event sizes, chunkings, flush points, reader section lengths, partial reads, ACK batches and yield patterns, on bounded (retry when full) and unbounded files; the consumer must receive exactly the produced sequence, ACK never exceeds consumption, after every ACK Active() is at least the number of events the Flushed callback had reported minus the ACKed ones (a flush that overlapped the ACK must not be lost), both finish, no data race, empty queue at the end.",
  note="Schedule perturbed, not owned: atomicity defects found probabilistically; failures print the scenario (no shrinking of schedules).",
  technique="concurrent property testing (rapid-generated scripts) under the Go race detector with FIFO oracle",
  design="4/C13"),
 "C18": dict(
  text="Generated sequences of open / second open / waiting open / transaction / close / failing opens (invalid options, damaged or zeroed headers, short file) on one path of the real file system: second open must fail with LockFailed and leave the first usable, a waiting open returns only after Close, every failed open and every Close leaves the path lockable at once with the last committed contents; on the simulated disk: creation/open with each I/O call failing once, and a Close whose munmap fails, must release the lock.",
  note="Runs on the OS file system with flock; injected I/O failure during initialisation is covered on the simulated disk (lock flag checked after failed opens in C08/C16).",
  technique="model-based property testing (rapid) on the real file system",
  design="4/C18"),
}

NOT_APPLICABLE = {}

def main():
    root = os.path.dirname(os.path.abspath(__file__))
    props = [json.loads(l)["id"] for l in open(os.path.join(root, "properties.jsonl"))]
    checks = []
    for pid in props:
        if pid not in CHECKS:
            continue
        c = CHECKS[pid]
        checks.append({
            "property_id": pid,
            "quick_cmd": "./check check %s --tier quick" % pid,
            "thorough_cmd": "./check check %s --tier thorough" % pid,
            "evidence_file": "/verif/evidence/%s.json" % pid,
            "replay_cmd_template": "./check replay {path}",
            "engine": "verif-pbt",
            "level_claimed": {"category": c.get("level", "exploration"), "text": c["text"], "design_ref": "DESIGN.md section " + c["design"]},
            "level_note": c["note"],
            "technique": c["technique"],
        })
    na = []
    for pid in props:
        if pid not in CHECKS:
            na.append({"property_id": pid, "reason": NOT_APPLICABLE.get(pid, "check not built yet in this snapshot; planned with the same technique (see DESIGN.md section 4)")})
    m = {
        "version": 1,
        "setup_cmd": "./check build",
        "hooks": {
            "guard": "verif",
            "enable": "go build tag: go test -tags verif (file /repo/verif_hooks.go)",
            "baseline_off_cmd": "cd /repo && GOFLAGS=-mod=mod GOPROXY=off GOSUMDB=off go test -vet=off -count=1 ./...",
            "source_commits": HOOK_COMMITS,
            "add_only": True,
        },
        "engines": [{
            "name": "verif-pbt",
            "path": "/verif/cmd/verif",
            "serves_properties": sorted(CHECKS.keys()),
            "kind_free_text": "Go driver + test binary: pgregory.net/rapid generators over JSON programs, simulated disk (crash images, fault plans, gates), reference models, twin runs, delta-debugging minimiser, native go fuzz targets (thorough tier)",
        }],
        "checks": checks,
        "notes": "Exit codes: 0 held, 1 violation (VIOLATION line), 2 inconclusive/infrastructure. Known findings: /verif/known_findings.jsonl. Seeds: VERIF_SEED.",
        "not_applicable": na,
    }
    json.dump(m, open(os.path.join(root, "MANIFEST.json"), "w"), indent=1)
    print("wrote MANIFEST.json with", len(checks), "checks;", len(na), "not claimed")

main()
