package simdisk

import (
	"sort"
	"strconv"
	"strings"
)

// PendOp is a write or truncate that has been issued but is not yet covered
// by a completed Sync. Multi-page writes are split per page.
type PendOp struct {
	LogIdx   int
	Truncate bool
	Off      int64
	Data     []byte
	Size     int64
}

// CrashSpec describes one crash image: the durable prefix up to the last
// completed sync before log position K, plus the pending ops listed in Kept
// (indices into the pending list at K, applied in issue order), optionally
// with one of them torn (only its first TornCut bytes applied).
type CrashSpec struct {
	K       int   // crash happens after log[K-1]
	Pending int   // number of pending ops at K
	Kept    []int // indices into pending list
	TornAt  int   // index into pending list of the torn op, -1 if none
	TornCut int
	TornOld []byte // content of the torn range before the torn write (valid during visit only)
	Family  string
}

func (s CrashSpec) String() string {
	var b strings.Builder
	b.WriteString("k=" + strconv.Itoa(s.K) + " pending=" + strconv.Itoa(s.Pending) + " kept=[")
	for i, k := range s.Kept {
		if i > 0 {
			b.WriteByte(',')
		}
		b.WriteString(strconv.Itoa(k))
	}
	b.WriteString("]")
	if s.TornAt >= 0 {
		b.WriteString(" torn=" + strconv.Itoa(s.TornAt) + "@" + strconv.Itoa(s.TornCut))
	}
	b.WriteString(" " + s.Family)
	return b.String()
}

// EnumOpts configures crash image enumeration.
type EnumOpts struct {
	PageSize   int
	HeaderSize int   // size of a header write (for tearing)
	MaxFull    int   // enumerate all 2^p subsets if p <= MaxFull
	Random     int   // number of random subsets if p > MaxFull
	TornCuts   []int // byte positions at which a pending header write is torn
	// Boundary decides whether position k (crash after log[k-1]) is enumerated.
	// nil: every position after an I/O op and after every marker.
	Boundary func(k int) bool
	// Base is the durable content of the disk before the first op of the log
	// (nil: empty disk). Used for logs recorded on a disk created from an image.
	Base []byte
}

// Enumerate walks the op log from position `from` (exclusive lower bound for
// crash positions: the first crash position is from+1... unless from is 0) and
// calls visit for every crash image. visit must not retain img.
// rnd supplies pseudo random numbers for subset sampling.
func Enumerate(log []Op, from int, o EnumOpts, rnd func() uint64, visit func(spec CrashSpec, pend []PendOp, img []byte)) {
	base := append([]byte(nil), o.Base...)
	var pend []PendOp
	seen := map[uint64]struct{}{}
	epoch := 0
	markers := 0
	scratch := []byte(nil)

	emit := func(k int, kept []int, tornAt, tornCut int, family string) {
		// dedupe identical (epoch, markers, subset, tear) combinations (hashed key)
		h := uint64(14695981039346656037)
		mix := func(v uint64) {
			for i := 0; i < 8; i++ {
				h ^= v & 0xff
				h *= 1099511628211
				v >>= 8
			}
		}
		mix(uint64(epoch))
		mix(uint64(markers))
		for _, i := range kept {
			mix(uint64(pend[i].LogIdx))
			mix(uint64(pend[i].Off))
		}
		if tornAt >= 0 {
			mix(0xffff)
			mix(uint64(pend[tornAt].LogIdx))
			mix(uint64(tornCut))
		}
		if _, dup := seen[h]; dup {
			return
		}
		seen[h] = struct{}{}

		scratch = append(scratch[:0], base...)
		var tornOld []byte
		for _, i := range kept {
			p := &pend[i]
			if i == tornAt {
				if end := int(p.Off) + len(p.Data); end <= len(scratch) {
					tornOld = append([]byte(nil), scratch[p.Off:end]...)
				}
				scratch = applyPend(scratch, PendOp{Off: p.Off, Data: p.Data[:tornCut]})
				continue
			}
			scratch = applyPend(scratch, *p)
		}
		visit(CrashSpec{K: k, Pending: len(pend), Kept: kept, TornAt: tornAt, TornCut: tornCut, TornOld: tornOld, Family: family}, pend, scratch)
	}

	isHeader := func(p *PendOp) bool {
		return !p.Truncate && len(p.Data) == o.HeaderSize &&
			(p.Off == 0 || p.Off == int64(o.PageSize))
	}

	enumerateAt := func(k int) {
		p := len(pend)
		all := make([]int, p)
		for i := range all {
			all[i] = i
		}
		if p == 0 {
			emit(k, nil, -1, 0, "none")
			return
		}
		if p <= o.MaxFull {
			for mask := 0; mask < 1<<uint(p); mask++ {
				var kept []int
				for i := 0; i < p; i++ {
					if mask&(1<<uint(i)) != 0 {
						kept = append(kept, i)
					}
				}
				fam := "subset"
				if mask == 0 {
					fam = "none"
				} else if mask == 1<<uint(p)-1 {
					fam = "all"
				}
				emit(k, kept, -1, 0, fam)
			}
		} else if p > 48 {
			// very many pending writes (one huge transaction): a bounded structured sample
			emit(k, nil, -1, 0, "none")
			emit(k, all, -1, 0, "all")
			emit(k, all[:1], -1, 0, "only-one")
			emit(k, all[p-1:], -1, 0, "only-one")
			emit(k, all[1:], -1, 0, "all-but-one")
			emit(k, all[:p-1], -1, 0, "all-but-one")
			for j := 1; j < 12; j++ {
				cut := j * p / 12
				emit(k, all[:cut], -1, 0, "prefix")
				emit(k, all[cut:], -1, 0, "suffix")
			}
			// the header write (if pending) alone / missing
			for i := 0; i < p; i++ {
				if isHeader(&pend[i]) {
					emit(k, []int{i}, -1, 0, "only-one")
					kept := make([]int, 0, p-1)
					kept = append(kept, all[:i]...)
					kept = append(kept, all[i+1:]...)
					emit(k, kept, -1, 0, "all-but-one")
				}
			}
			for r := 0; r < 4; r++ {
				var kept []int
				for i := 0; i < p; i++ {
					if rnd()&3 != 0 {
						kept = append(kept, i)
					}
				}
				emit(k, kept, -1, 0, "random")
			}
		} else {
			emit(k, nil, -1, 0, "none")
			emit(k, all, -1, 0, "all")
			for i := 0; i < p; i++ {
				emit(k, []int{i}, -1, 0, "only-one")
				kept := make([]int, 0, p-1)
				kept = append(kept, all[:i]...)
				kept = append(kept, all[i+1:]...)
				emit(k, kept, -1, 0, "all-but-one")
				if i > 0 {
					emit(k, all[:i], -1, 0, "prefix")
					emit(k, all[i:], -1, 0, "suffix")
				}
			}
			for r := 0; r < o.Random; r++ {
				var kept []int
				bits := rnd()
				dens := rnd() % 4 // vary density
				for i := 0; i < p; i++ {
					if i%64 == 0 && i > 0 {
						bits = rnd()
					}
					b := bits & 1
					bits >>= 1
					switch dens {
					case 0: // sparse: need two bits set
						b2 := rnd() & 1
						b &= b2
					case 1: // dense
						b2 := rnd() & 1
						b |= b2
					}
					if b != 0 {
						kept = append(kept, i)
					}
				}
				emit(k, kept, -1, 0, "random")
			}
		}
		// torn header writes
		for i := 0; i < p; i++ {
			if !isHeader(&pend[i]) {
				continue
			}
			for _, cut := range o.TornCuts {
				if cut <= 0 || cut >= len(pend[i].Data) {
					continue
				}
				emit(k, all, i, cut, "torn+all")
				emit(k, []int{i}, i, cut, "torn+none")
			}
		}
	}

	for idx := 0; idx <= len(log); idx++ {
		// position k = idx: ops [0, idx) have been issued
		if idx > from && idx > 0 {
			prev := log[idx-1]
			ok := true
			if o.Boundary != nil {
				ok = o.Boundary(idx)
			}
			// inside a very long run of un-synced writes (one huge transaction) only
			// every 97th write boundary is enumerated (plus all sync/marker boundaries)
			if ok && len(pend) > 48 && prev.Kind == OpWrite && len(pend)%97 != 0 {
				ok = false
			}
			if ok {
				enumerateAt(idx)
			}
		}
		if idx == len(log) {
			break
		}
		op := log[idx]
		switch op.Kind {
		case OpWrite:
			pend = appendSplit(pend, idx, op, o.PageSize)
		case OpTruncate:
			pend = append(pend, PendOp{LogIdx: idx, Truncate: true, Size: op.Size})
		case OpSync:
			if op.OK {
				for i := range pend {
					base = applyPend(base, pend[i])
				}
				pend = pend[:0]
				epoch++
				for k := range seen {
					delete(seen, k)
				}
			}
		case OpMark:
			markers++
		}
	}
}

func appendSplit(pend []PendOp, idx int, op Op, pageSize int) []PendOp {
	if pageSize <= 0 || len(op.Data) <= pageSize {
		return append(pend, PendOp{LogIdx: idx, Off: op.Off, Data: op.Data})
	}
	off, data := op.Off, op.Data
	for len(data) > 0 {
		n := pageSize - int(off%int64(pageSize))
		if n > len(data) {
			n = len(data)
		}
		pend = append(pend, PendOp{LogIdx: idx, Off: off, Data: data[:n]})
		off += int64(n)
		data = data[n:]
	}
	return pend
}

func applyPend(img []byte, p PendOp) []byte {
	if p.Truncate {
		sz := int(p.Size)
		if sz <= len(img) {
			return img[:sz]
		}
		return append(img, make([]byte, sz-len(img))...)
	}
	end := int(p.Off) + len(p.Data)
	if end > len(img) {
		if end <= cap(img) {
			old := len(img)
			img = img[:end]
			for i := old; i < end; i++ {
				img[i] = 0
			}
		} else {
			n := make([]byte, end, end+end/4)
			copy(n, img)
			img = n
		}
	}
	copy(img[p.Off:], p.Data)
	return img
}

// DurableImage returns the image consisting of all ops before log position k
// that are covered by a completed sync, plus (if withPending) all later ops
// before k.
func DurableImage(log []Op, k int, withPending bool) []byte {
	var base []byte
	var pend []PendOp
	for idx := 0; idx < k && idx < len(log); idx++ {
		op := log[idx]
		switch op.Kind {
		case OpWrite:
			pend = append(pend, PendOp{LogIdx: idx, Off: op.Off, Data: op.Data})
		case OpTruncate:
			pend = append(pend, PendOp{LogIdx: idx, Truncate: true, Size: op.Size})
		case OpSync:
			if op.OK {
				for i := range pend {
					base = applyPend(base, pend[i])
				}
				pend = pend[:0]
			}
		}
	}
	if withPending {
		for i := range pend {
			base = applyPend(base, pend[i])
		}
	}
	return base
}

// SortedInts is a helper for deterministic output.
func SortedInts(m map[int]struct{}) []int {
	out := make([]int, 0, len(m))
	for k := range m {
		out = append(out, k)
	}
	sort.Ints(out)
	return out
}
