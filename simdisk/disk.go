// Package simdisk implements a simulated disk behind txfile's file
// abstraction: coherent mmap views, an ordered op log with durability
// information, fault injection, and a gate to park the goroutine issuing a
// call.
package simdisk

import (
	"fmt"
	"sync"

	txfile "github.com/elastic/go-txfile"
)

// OpKind classifies op log entries.
type OpKind uint8

const (
	OpWrite OpKind = iota
	OpSync
	OpTruncate
	OpMark
)

// Op is an entry of the op log.
type Op struct {
	Kind OpKind
	Off  int64  // OpWrite
	Data []byte // OpWrite (private copy)
	Size int64  // OpTruncate
	Mark string // OpMark
	Arg  int    // OpMark
	OK   bool   // OpSync: sync completed successfully
}

// CallKind names an I/O call for fault plans and gates.
type CallKind uint8

const (
	CallWrite CallKind = iota
	CallSync
	CallTruncate
	CallSize
	CallMMap
	CallRead
	CallMUnmap
	NumCallKinds
)

func (k CallKind) String() string {
	return [...]string{"write", "sync", "truncate", "size", "mmap", "read", "munmap", "?"}[k]
}

// FaultMode selects how a call fails.
type FaultMode uint8

const (
	// FailBefore returns an error without any effect.
	FailBefore FaultMode = iota
	// FailShort (writes only) applies the first half of the buffer, reports the
	// short count together with an error.
	FailShort
	// FailAfter applies the effect and then reports an error (a write that reached the
	// page cache but was reported as failed; a sync whose result was lost). For Sync the
	// writes do NOT become durable.
	FailAfter
)

// Fault makes calls number [Ordinal, Ordinal+Burst) of kind Kind fail.
// Ordinals count calls of that kind since Arm was called, starting at 0.
type Fault struct {
	Kind    CallKind
	Ordinal int
	Burst   int
	Mode    FaultMode
	NoSpace bool
}

// Disk is the simulated disk. All methods are safe for concurrent use.
type Disk struct {
	mu sync.Mutex

	name   string
	data   []byte
	log    []Op
	record bool

	views  [][]byte
	locked bool
	opens  int // successful Lock calls
	closes int

	maxExtent int64

	fault    *Fault
	counts   [NumCallKinds]int
	injected int // number of failed calls

	// gate
	gateKind   CallKind
	gateSkip   int
	gateArmed  bool
	gateParked chan struct{}
	gateGo     chan struct{}

	// poisonUnmap controls whether unmapped views are overwritten
	poisonUnmap bool
}

const (
	poisonEOF   = 0xDB
	poisonUnmap = 0xDD
)

// New creates an empty disk (file of size 0).
func New(name string) *Disk {
	return &Disk{name: name, record: true, poisonUnmap: true}
}

// FromImage creates a disk with the given content. The image is copied.
func FromImage(name string, img []byte) *Disk {
	d := New(name)
	d.data = append([]byte(nil), img...)
	d.maxExtent = int64(len(img))
	return d
}

// SetRecord switches op logging on or off.
func (d *Disk) SetRecord(on bool) {
	d.mu.Lock()
	d.record = on
	d.mu.Unlock()
}

// Mark appends a marker to the op log.
func (d *Disk) Mark(text string, arg int) {
	d.mu.Lock()
	if d.record {
		d.log = append(d.log, Op{Kind: OpMark, Mark: text, Arg: arg})
	}
	d.mu.Unlock()
}

// Log returns the op log (shared backing array; do not modify).
func (d *Disk) Log() []Op {
	d.mu.Lock()
	defer d.mu.Unlock()
	return d.log[:len(d.log):len(d.log)]
}

// LogLen returns the current length of the op log.
func (d *Disk) LogLen() int {
	d.mu.Lock()
	defer d.mu.Unlock()
	return len(d.log)
}

// Image returns a copy of the current (page cache) content.
func (d *Disk) Image() []byte {
	d.mu.Lock()
	defer d.mu.Unlock()
	return append([]byte(nil), d.data...)
}

// MaxExtent returns the largest file size ever reached.
func (d *Disk) MaxExtent() int64 {
	d.mu.Lock()
	defer d.mu.Unlock()
	return d.maxExtent
}

// ResetMaxExtent sets the extent watermark to the current size.
func (d *Disk) ResetMaxExtent() {
	d.mu.Lock()
	d.maxExtent = int64(len(d.data))
	d.mu.Unlock()
}

// CurSize returns the current size without counting as an I/O call.
func (d *Disk) CurSize() int64 {
	d.mu.Lock()
	defer d.mu.Unlock()
	return int64(len(d.data))
}

// Locked reports whether the file lock is held.
func (d *Disk) Locked() bool {
	d.mu.Lock()
	defer d.mu.Unlock()
	return d.locked
}

// LiveViews returns the number of mmap views not yet unmapped.
func (d *Disk) LiveViews() int {
	d.mu.Lock()
	defer d.mu.Unlock()
	return len(d.views)
}

// Arm installs a fault plan (nil clears it) and resets the call counters.
func (d *Disk) Arm(f *Fault) {
	d.mu.Lock()
	d.fault = f
	d.counts = [NumCallKinds]int{}
	d.injected = 0
	d.mu.Unlock()
}

// Counts returns the number of calls per kind since the last Arm.
func (d *Disk) Counts() [NumCallKinds]int {
	d.mu.Lock()
	defer d.mu.Unlock()
	return d.counts
}

// ArmedFault returns the armed fault plan (nil if none).
func (d *Disk) ArmedFault() *Fault {
	d.mu.Lock()
	defer d.mu.Unlock()
	return d.fault
}

// FaultOver reports whether the armed fault plan can not fire any more (all
// calls of its burst have been issued), or no plan is armed.
func (d *Disk) FaultOver() bool {
	d.mu.Lock()
	defer d.mu.Unlock()
	f := d.fault
	return f == nil || d.counts[f.Kind] >= f.Ordinal+f.Burst
}

// Injected returns the number of calls that failed by injection since Arm.
func (d *Disk) Injected() int {
	d.mu.Lock()
	defer d.mu.Unlock()
	return d.injected
}

// Hold arms the gate: the goroutine issuing the next call of the given kind is
// parked before the call has any effect. The returned channel is closed once
// a goroutine is parked.
func (d *Disk) Hold(kind CallKind) <-chan struct{} { return d.HoldNth(kind, 0) }

// HoldNth is Hold, but lets the next skip calls of that kind pass first.
func (d *Disk) HoldNth(kind CallKind, skip int) <-chan struct{} {
	d.mu.Lock()
	defer d.mu.Unlock()
	d.gateKind = kind
	d.gateSkip = skip
	d.gateArmed = true
	d.gateParked = make(chan struct{})
	d.gateGo = make(chan struct{})
	return d.gateParked
}

// Release disarms the gate and resumes a parked goroutine, if any.
func (d *Disk) Release() {
	d.mu.Lock()
	g := d.gateGo
	d.gateArmed = false
	d.gateGo = nil
	d.mu.Unlock()
	if g != nil {
		close(g)
	}
}

// enter is called with d.mu held at the start of every I/O call. It handles
// the gate and the fault plan. Returns the fault to apply (or nil).
func (d *Disk) enter(kind CallKind) *Fault {
	if d.gateArmed && d.gateKind == kind && d.gateSkip > 0 {
		d.gateSkip--
	} else if d.gateArmed && d.gateKind == kind {
		parked, goCh := d.gateParked, d.gateGo
		d.gateArmed = false
		d.mu.Unlock()
		close(parked)
		<-goCh
		d.mu.Lock()
	}

	n := d.counts[kind]
	d.counts[kind]++
	if f := d.fault; f != nil && f.Kind == kind && n >= f.Ordinal && n < f.Ordinal+f.Burst {
		d.injected++
		return f
	}
	return nil
}

func (d *Disk) ioErr(op string, f *Fault) error {
	return txfile.VerifIOError("simdisk/"+op, f.NoSpace)
}

// ---- txfile.VerifFile ----

func (d *Disk) Name() string { return d.name }

func (d *Disk) Close() error {
	d.mu.Lock()
	d.closes++
	d.mu.Unlock()
	return nil
}

func (d *Disk) Lock(exclusive, blocking bool) error {
	d.mu.Lock()
	defer d.mu.Unlock()
	if d.locked {
		return txfile.VerifLockError()
	}
	d.locked = true
	d.opens++
	return nil
}

func (d *Disk) Unlock() error {
	d.mu.Lock()
	defer d.mu.Unlock()
	if !d.locked {
		return fmt.Errorf("simdisk: unlock of unlocked file")
	}
	d.locked = false
	return nil
}

func (d *Disk) Size() (int64, error) {
	d.mu.Lock()
	defer d.mu.Unlock()
	if f := d.enter(CallSize); f != nil {
		return 0, d.ioErr("size", f)
	}
	return int64(len(d.data)), nil
}

func (d *Disk) ReadAt(p []byte, off int64) (int, error) {
	d.mu.Lock()
	defer d.mu.Unlock()
	if f := d.enter(CallRead); f != nil {
		return 0, d.ioErr("read", f)
	}
	if off < 0 || off >= int64(len(d.data)) {
		return 0, fmt.Errorf("simdisk: EOF")
	}
	n := copy(p, d.data[off:])
	if n < len(p) {
		return n, fmt.Errorf("simdisk: EOF")
	}
	return n, nil
}

func (d *Disk) WriteAt(p []byte, off int64) (int, error) {
	d.mu.Lock()
	defer d.mu.Unlock()
	f := d.enter(CallWrite)
	if f != nil {
		switch f.Mode {
		case FailShort:
			n := len(p) / 2
			d.applyWrite(p[:n], off)
			return n, d.ioErr("write", f)
		case FailAfter:
			d.applyWrite(p, off)
			return len(p), d.ioErr("write", f)
		default:
			return 0, d.ioErr("write", f)
		}
	}
	d.applyWrite(p, off)
	return len(p), nil
}

func (d *Disk) applyWrite(p []byte, off int64) {
	if len(p) == 0 {
		return
	}
	end := off + int64(len(p))
	if end > int64(len(d.data)) {
		d.resize(end)
	}
	copy(d.data[off:], p)
	for _, v := range d.views {
		if off < int64(len(v)) {
			copy(v[off:], p)
		}
	}
	if d.record {
		d.log = append(d.log, Op{Kind: OpWrite, Off: off, Data: append([]byte(nil), p...)})
	}
}

// resize changes the file size (no logging), keeping views coherent.
func (d *Disk) resize(sz int64) {
	old := int64(len(d.data))
	if sz > old {
		if int64(cap(d.data)) >= sz {
			d.data = d.data[:sz]
			for i := old; i < sz; i++ {
				d.data[i] = 0
			}
		} else {
			nd := make([]byte, sz, sz+sz/4+4096)
			copy(nd, d.data)
			d.data = nd
		}
		for _, v := range d.views {
			for i := old; i < sz && i < int64(len(v)); i++ {
				v[i] = 0
			}
		}
		if sz > d.maxExtent {
			d.maxExtent = sz
		}
	} else if sz < old {
		d.data = d.data[:sz]
		for _, v := range d.views {
			for i := sz; i < old && i < int64(len(v)); i++ {
				v[i] = poisonEOF
			}
		}
	}
}

func (d *Disk) Truncate(sz int64) error {
	d.mu.Lock()
	defer d.mu.Unlock()
	if f := d.enter(CallTruncate); f != nil {
		if f.Mode == FailAfter {
			d.applyTruncate(sz)
		}
		return d.ioErr("truncate", f)
	}
	d.applyTruncate(sz)
	return nil
}

func (d *Disk) applyTruncate(sz int64) {
	if sz < 0 {
		sz = 0
	}
	d.resize(sz)
	if d.record {
		d.log = append(d.log, Op{Kind: OpTruncate, Size: sz})
	}
}

func (d *Disk) SyncFile(dataOnly bool) error {
	d.mu.Lock()
	defer d.mu.Unlock()
	if f := d.enter(CallSync); f != nil {
		if d.record {
			d.log = append(d.log, Op{Kind: OpSync, OK: false})
		}
		return d.ioErr("sync", f)
	}
	if d.record {
		d.log = append(d.log, Op{Kind: OpSync, OK: true})
	}
	return nil
}

func (d *Disk) MMap(sz int) ([]byte, error) {
	d.mu.Lock()
	defer d.mu.Unlock()
	if f := d.enter(CallMMap); f != nil {
		return nil, d.ioErr("mmap", f)
	}
	if sz < 0 {
		return nil, fmt.Errorf("simdisk: negative mmap size")
	}
	v := make([]byte, sz)
	n := copy(v, d.data)
	for i := n; i < sz; i++ {
		v[i] = poisonEOF
	}
	d.views = append(d.views, v)
	return v, nil
}

// dropView removes (and poisons) the view starting at b[0]; d.mu is held.
func (d *Disk) dropView(b []byte) {
	for i, v := range d.views {
		if len(v) > 0 && len(b) > 0 && &v[0] == &b[0] {
			d.views = append(d.views[:i], d.views[i+1:]...)
			if d.poisonUnmap {
				for j := range v {
					v[j] = poisonUnmap
				}
			}
			return
		}
	}
}

func (d *Disk) MUnmap(b []byte) error {
	d.mu.Lock()
	defer d.mu.Unlock()
	f := d.enter(CallMUnmap)
	if len(b) == 0 {
		// munmap(2) of an empty range fails with EINVAL (osfs passes the slice to unix.Munmap)
		return txfile.VerifIOError("simdisk/munmap", false)
	}
	if f != nil {
		// the mapping is gone nevertheless (the error is only reported)
		defer d.dropView(b)
		return d.ioErr("munmap", f)
	}
	for i, v := range d.views {
		if len(v) > 0 && len(b) > 0 && &v[0] == &b[0] {
			d.views = append(d.views[:i], d.views[i+1:]...)
			if d.poisonUnmap {
				for j := range v {
					v[j] = poisonUnmap
				}
			}
			return nil
		}
	}
	return fmt.Errorf("simdisk: munmap of unknown mapping")
}
