#!/bin/sh
# usage: tools/altrepo.sh <repo-dir> <check args...>
# Runs ./check against another checkout of the library (scratch worktree) from a private copy of
# /verif, so that /repo and /verif/evidence stay untouched. For experiments only (seeded changes,
# candidate repairs); registered checks always run in /verif against /repo.
repo=$1; shift
tmp=$(mktemp -d /tmp/altverif.XXXXXX)
rsync -a --exclude .git --exclude .build --exclude replays /verif/ $tmp/
cd $tmp || exit 2
GOFLAGS=-mod=mod go mod edit -replace github.com/elastic/go-txfile=$repo
VERIF_ROOT=$tmp VERIF_REPO_DIR=$repo ./check "$@"
rc=$?
if [ -d $tmp/replays ]; then mkdir -p /tmp/altreplays; cp -r $tmp/replays/* /tmp/altreplays/ 2>/dev/null; fi
mkdir -p /tmp/altevidence; cp $tmp/evidence/*.json /tmp/altevidence/ 2>/dev/null
rm -rf $tmp
exit $rc
