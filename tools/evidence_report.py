#!/usr/bin/env python3
"""Prints, per evidence file, the size of the run and the counters that show whether the classes a check
is supposed to reach were actually reached (used to fill DESIGN.md section 0.3 and to spot vacuous parts)."""
import json, glob, os
KEYS = {
 'C01': ['images', 'images-in-commit-window', 'images-torn', 'recrash-histories', 'images-second-level', 'tx-overflow', 'resize', 'enumeration-capped'],
 'C03': ['stall-batch>12', 'reopen-inmemory-limit', 'checkpoint-nonempty', 'reuse-freed', 'partial-on-fresh-written'],
 'C04': ['tx-overflow', 'reopen-inmemory-limit', 'reopen-bigregion', 'meta-grow'],
 'C06': ['images', 'images-nontrivial', 'fill-to-error', 'flush-failed', 'queue-fault-runs', 'qf-call-failed-by-fault', 'qf-ack-failed-by-fault', 'qf-flush-after-failure', 'reopen-file', 'observer-totals-checked'],
 'C07': ['abort-compared', 'abort-file-size-checked', 'abort-file-shrank', 'twin-compared', 'twin-skipped-overflow'],
 'C08': ['fault-runs', 'fault-in-commit', 'commit-failed-sync-only', 'begin-failed-by-fault', 'fault-crash-images', 'fault-crash-images-with-unconfirmed-commit', 'fault-crash-recovered-unconfirmed-commit', 'open-fault-runs', 'resize-open-fault-runs', 'shrink-open-fault-runs', 'shrink-open-fault-tolerated', 'shrink-release-ran', 'known:F17', 'tx-overflow', 'close-under-faults'],
 'C10': ['twin-compared', 'tx-overflow', 'reopen-multipage-freelist', 'reopen-multipage-wal', 'reopen-bigregion'],
 'C12': ['fill-to-error', 'flush-after-failure', 'observer-totals-checked'],
 'C13': ['pc-run', 'acks-during-production'],
 'C14': ['resize', 'resize-grow', 'resize-grow-with-overflow-area', 'resize-shrink', 'resize-unbounded', 'reopen-inmemory-limit', 'tx-overflow', 'resize-with-wal', 'resize-free-beyond-limit'],
 'C15': ['misuse-matrix', 'misuse-cell', 'misuse-reader-probes-uncommitted-id'],
 'C17': ['probe', 'probe-available', 'observer-totals-checked', 'observer-init-checked', 'probe-partially-acked'],
 'C18': ['second-open-rejected', 'open-after-failed-open', 'waiting-open', 'sim-failed-open', 'sim-close-with-failing-munmap'],
}
for f in sorted(glob.glob('/verif/evidence/C*.json')):
    e = json.load(open(f))
    pid = e['property_id']
    cov = e['coverage']
    t, c = cov.get('classes_totals', {}), cov.get('classes_cases', {})
    print('%s %s seed=%s evaluations=%s nontrivial=%s violations=%s wall=%.0fs' % (pid, e['tier'], e['seed'], cov.get('evaluations'), cov.get('distinct_nontrivial'), e['violations'], e['wall_s']))
    for k in KEYS.get(pid, []):
        print('      %-45s total %-9s in %s cases' % (k, t.get(k, 0), c.get(k, 0)))
