#!/bin/sh
# usage: tools/multiseed.sh <tier> <seed>... ; runs every check of the given tier for each seed and prints one line per run.
# CHECKS="C08 C06" restricts the run to those checks.
# With VP_RUN_REPO set (vp run --with-repo) the module replacement is pointed at that snapshot of /repo.
tier=$1; shift
if [ -n "$VP_RUN_REPO" ]; then
  GOFLAGS=-mod=mod go mod edit -replace github.com/elastic/go-txfile=$VP_RUN_REPO
fi
for s in "$@"; do
  for c in ${CHECKS:-C01 C02 C03 C04 C05 C06 C07 C08 C09 C10 C11 C12 C13 C14 C15 C16 C17 C18}; do
    t0=$(date +%s)
    VERIF_SEED=$s ./check check $c --tier $tier > out.$c.$s.log 2>&1
    rc=$?
    echo "seed=$s $c exit=$rc wall=$(( $(date +%s) - t0 ))s $(grep -c '^VIOLATION' out.$c.$s.log) violations"
    [ $rc -ne 0 ] && tail -n 30 out.$c.$s.log
  done
done
