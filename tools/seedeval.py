#!/usr/bin/env python3
"""Confirms a seeded defect written by a sub-agent and runs the checks against it.

usage: seedeval.py <ID> <X> [check ids...]
  reads /tmp/seed/<ID>/OUT/{patchX.diff,demoX_test.go,metaX.json}
  1. in the scratch worktree: suite passes with the patch, demo fails with it and passes without
  2. applies the patch to /repo, runs the quick checks given (default: the property itself), reverts
  writes /verif/seeded/<ID>-<X>/{patch.diff,demo_test.go,meta.json}
"""
import json, os, re, shutil, subprocess, sys, time

ENV = dict(os.environ, GOFLAGS="-mod=mod", GOPROXY="off", GOSUMDB="off", GOTOOLCHAIN="local")

def run(cmd, cwd, timeout=1800):
    p = subprocess.run(cmd, cwd=cwd, env=ENV, shell=True, capture_output=True, text=True, timeout=timeout)
    return p.returncode, (p.stdout + p.stderr)

def main():
    pid, x = sys.argv[1], sys.argv[2]
    checks = sys.argv[3:] or [pid]
    base = os.environ.get("SEED_BASE", "/tmp/seed")
    wt = "%s/%s" % (base, pid)
    out = os.path.join(wt, "OUT")
    patch = os.path.join(out, "patch%s.diff" % x)
    demo = os.path.join(out, "demo%s_test.go" % x)
    meta = json.load(open(os.path.join(out, "meta%s.json" % x)))
    res = {"agent_meta": meta, "property": pid, "variant": x, "ran": []}

    src = open(demo).read()
    m = re.search(r"^package (\w+)", src, re.M)
    pkg = m.group(1)
    sub = "pq" if pkg == "pq" else "."
    tests = re.findall(r"^func (Test\w+)\(", src, re.M)
    runre = "^(" + "|".join(tests) + ")$"

    # hide OUT from ./... (test files in OUT would be compiled as a package)
    hidden = wt + ".OUT.hidden"
    run("git checkout -- . && git clean -fdq -e OUT -e OUT.hidden", wt)
    demo_dst = os.path.join(wt, sub, "zz_seed_demo_test.go")

    def with_out_hidden(fn):
        os.rename(out, hidden)
        try:
            return fn()
        finally:
            os.rename(hidden, out)

    # 1a. patch applies, suite passes with it
    rc, o = run("git apply --check %s" % patch, wt)
    res["patch_applies"] = rc == 0
    if rc != 0:
        res["error"] = o[-2000:]
        return finish(pid, x, res, patch, demo)
    run("git apply %s" % patch, wt)
    rc, o = with_out_hidden(lambda: run("go build ./... && go test -vet=off -count=1 ./...", wt))
    res["suite_passes_with_patch"] = rc == 0
    res["ran"].append("go test -vet=off -count=1 ./...  (patch applied) -> exit %d" % rc)
    if rc != 0:
        res["suite_output_tail"] = o[-1500:]
    # 1b. demo fails with patch
    shutil.copy(demo, demo_dst)
    rc, o = with_out_hidden(lambda: run("go test -vet=off -count=1 -run '%s' ./%s" % (runre, sub), wt))
    res["demo_fails_with_patch"] = rc != 0
    res["ran"].append("go test -run '%s' ./%s (patch applied) -> exit %d" % (runre, sub, rc))
    res["demo_output_with_patch_tail"] = o[-800:]
    # 1c. demo passes without
    run("git checkout -- .", wt)
    rc, o = with_out_hidden(lambda: run("go test -vet=off -count=1 -run '%s' ./%s" % (runre, sub), wt))
    res["demo_passes_without_patch"] = rc == 0
    res["ran"].append("go test -run '%s' ./%s (original) -> exit %d" % (runre, sub, rc))
    os.remove(demo_dst)
    run("git checkout -- .", wt)

    # 2. checks against the patched tree: the scratch worktree is moved to /repo's current HEAD, the patch
    #    applied there, and the quick checks run from a private copy of /verif (tools/altrepo.sh), so that
    #    /repo and /verif/evidence stay untouched
    head = subprocess.run("git -C /repo rev-parse HEAD", shell=True, capture_output=True, text=True).stdout.strip()
    run("git checkout -q --detach %s" % head, wt)
    rc, o = run("git apply %s || git apply --3way %s" % (patch, patch), wt)
    if rc != 0:
        res["error"] = "patch does not apply to current HEAD: " + o[-500:]
        run("git checkout -- .", wt)
        return finish(pid, x, res, patch, demo)
    res["detected_by"] = []
    res["check_results"] = {}
    os.rename(out, hidden)
    try:
        for c in checks:
            t0 = time.time()
            rc, o = run("tools/altrepo.sh %s check %s --tier quick" % (wt, c), "/verif", timeout=3600)
            lines = [l for l in o.splitlines() if l.startswith("violation:") or l.startswith("VIOLATION") or l.startswith("INCONCLUSIVE") or "BUILD-ERROR" in l]
            res["check_results"][c] = {"exit": rc, "wall_s": round(time.time() - t0, 1), "lines": [l[:400] for l in lines[:6]]}
            res["ran"].append("tools/altrepo.sh <patched worktree at %s> check %s --tier quick -> exit %d" % (head[:7], c, rc))
            if rc == 1:
                res["detected_by"].append(c)
    finally:
        os.rename(hidden, out)
        run("git checkout -- . && git reset -q", wt)
    return finish(pid, x, res, patch, demo)

def finish(pid, x, res, patch, demo):
    d = "/verif/seeded/%s-%s%s" % (pid, os.environ.get("SEED_TAG", ""), x)
    os.makedirs(d, exist_ok=True)
    shutil.copy(patch, os.path.join(d, "patch.diff"))
    shutil.copy(demo, os.path.join(d, "demo_test.go.txt"))
    vc = subprocess.run("git -C /verif rev-parse --short HEAD; git -C /verif status --porcelain | grep -v '^??' | wc -l", shell=True, capture_output=True, text=True).stdout.split()
    res["verif_commit"] = vc[0] + ("+%s uncommitted files" % vc[1] if len(vc) > 1 and vc[1] != "0" else "")
    res["repo_head"] = subprocess.run("git -C /repo rev-parse --short HEAD", shell=True, capture_output=True, text=True).stdout.strip()
    mp = os.path.join(d, "meta.json")
    if os.path.exists(mp):
        try:
            old = json.load(open(mp))
            if old.get("check_results"):
                res["earlier_runs"] = old.get("earlier_runs", []) + [{"verif_commit": old.get("verif_commit", "?"), "repo_head": old.get("repo_head", "?"),
                    "detected_by": old.get("detected_by"), "check_results": old.get("check_results")}]
            else:
                res["earlier_runs"] = old.get("earlier_runs", [])
        except Exception:
            pass
    res["confirmed"] = bool(res.get("patch_applies") and res.get("suite_passes_with_patch") and res.get("demo_fails_with_patch") and res.get("demo_passes_without_patch"))
    json.dump(res, open(os.path.join(d, "meta.json"), "w"), indent=1)
    print(pid, x, "confirmed=%s" % res["confirmed"], "detected_by=%s" % res.get("detected_by"), res.get("error", ""))
    for c, r in res.get("check_results", {}).items():
        print("   ", c, r["exit"], r["wall_s"], (r["lines"][:1] or [""])[0][:200])

main()
