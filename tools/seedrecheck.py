#!/usr/bin/env python3
"""Re-runs quick checks against a seeded change that is already stored under /verif/seeded/<name>/.

usage: seedrecheck.py <name> <check id>...      (e.g. seedrecheck.py C07-r3B C07 C11)
The patch is applied (3-way if needed) to a scratch worktree of /repo's current HEAD, the demonstration is
re-run there (it must still fail, otherwise the change has been neutralised by a later repair), the checks
run from a private copy of /verif (tools/altrepo.sh); the result is merged into meta.json.
"""
import json, os, re, shutil, subprocess, sys, time

ENV = dict(os.environ, GOFLAGS="-mod=mod", GOPROXY="off", GOSUMDB="off", GOTOOLCHAIN="local")
WT = os.environ.get("SEED_WT", "/tmp/seedwt")

def run(cmd, cwd, timeout=3600):
    p = subprocess.run(cmd, cwd=cwd, env=ENV, shell=True, capture_output=True, text=True, timeout=timeout)
    return p.returncode, p.stdout + p.stderr

def main():
    name, checks = sys.argv[1], sys.argv[2:]
    d = "/verif/seeded/" + name
    meta = json.load(open(d + "/meta.json"))
    head = subprocess.run("git -C /repo rev-parse HEAD", shell=True, capture_output=True, text=True).stdout.strip()
    if not os.path.isdir(WT):
        run("git -C /repo worktree add --detach %s HEAD -q" % WT, "/")
    run("git checkout -q HEAD -- . ; git reset -q; git clean -fdq; git checkout -q --detach %s" % head, WT)
    rc, o = run("git apply %s/patch.diff || git apply --3way %s/patch.diff" % (d, d), WT)
    if rc != 0:
        print(name, "patch does not apply to", head[:7], o[-300:])
        meta["current"] = {"repo_head": head[:7], "applies": False}
        json.dump(meta, open(d + "/meta.json", "w"), indent=1)
        run("git checkout -q HEAD -- . ; git reset -q", WT)
        return
    run("git reset -q", WT)
    # demonstration on the current tree
    src = open(d + "/demo_test.go.txt").read()
    pkg = re.search(r"^package (\w+)", src, re.M).group(1)
    sub = "pq" if pkg == "pq" else "."
    tests = re.findall(r"^func (Test\w+)\(", src, re.M)
    demo = os.path.join(WT, sub, "zz_seed_demo_test.go")
    shutil.copy(d + "/demo_test.go.txt", demo)
    rc, o = run("go test -vet=off -count=1 -run '^(%s)$' ./%s" % ("|".join(tests), sub), WT)
    os.remove(demo)
    still = rc != 0
    res = {"repo_head": head[:7], "applies": True, "demo_still_fails": still, "check_results": {}, "detected_by": []}
    vc = subprocess.run("git -C /verif rev-parse --short HEAD; git -C /verif status --porcelain | grep -v '^??' | wc -l", shell=True, capture_output=True, text=True).stdout.split()
    res["verif_commit"] = vc[0] + ("+%s uncommitted files" % vc[1] if len(vc) > 1 and vc[1] != "0" else "")
    if not still:
        res["note"] = "the demonstration passes on the current tree with the patch applied: the change no longer breaks the property (neutralised by a later repair)"
    for c in checks:
        t0 = time.time()
        rc, o = run("tools/altrepo.sh %s check %s --tier quick" % (WT, c), "/verif")
        lines = [l for l in o.splitlines() if l.startswith("violation:") or l.startswith("VIOLATION") or l.startswith("INCONCLUSIVE") or "BUILD-ERROR" in l]
        res["check_results"][c] = {"exit": rc, "wall_s": round(time.time() - t0, 1), "lines": [l[:400] for l in lines[:6]]}
        if rc == 1:
            res["detected_by"].append(c)
    run("git checkout -q HEAD -- . ; git reset -q", WT)
    # merge: keep what was recorded before as an earlier run
    if meta.get("check_results"):
        meta.setdefault("earlier_runs", []).append({"verif_commit": meta.get("verif_commit", "?"), "repo_head": meta.get("repo_head", "?"),
            "detected_by": meta.get("detected_by"), "check_results": meta.get("check_results")})
    meta["check_results"] = res["check_results"]
    meta["detected_by"] = res["detected_by"]
    meta["verif_commit"], meta["repo_head"] = res["verif_commit"], res["repo_head"]
    meta["demo_still_fails_on_current_tree"] = still
    if not still:
        meta["neutralised"] = res["note"]
    meta.setdefault("ran", []).append("seedrecheck at repo %s: demo %s; checks %s -> detected by %s" % (head[:7], "fails" if still else "PASSES", ",".join(checks), res["detected_by"]))
    json.dump(meta, open(d + "/meta.json", "w"), indent=1)
    print(name, "demo_still_fails=%s" % still, "detected_by=%s" % res["detected_by"])
    for c, r in res["check_results"].items():
        print("   ", c, r["exit"], r["wall_s"], (r["lines"][:1] or [""])[0][:200])

main()
