#!/usr/bin/env python3
"""Prints the markdown table of seeded defects (from seeded/*/meta.json).
Columns: change | confirmed | caught by (current checks) | first evaluation | what it does"""
import json, glob, os
rows = []
for d in sorted(glob.glob('/verif/seeded/*')):
    m = json.load(open(os.path.join(d, 'meta.json')))
    a = m.get('agent_meta', {})
    name = os.path.basename(d)
    summ = (a.get('summary') or '').replace('\n', ' ').replace('|', '/')
    if len(summ) > 200:
        summ = summ[:197] + '...'
    det = ', '.join(m.get('detected_by') or []) or '-'
    if m.get('neutralised') or m.get('demo_still_fails_on_current_tree') is False:
        det = 'n/a (neutralised by a later repair)'
    first = '-'
    er = m.get('earlier_runs') or []
    if er:
        f = er[0]
        first = 'tried %s: %s' % (', '.join(sorted((f.get('check_results') or {}).keys())), ', '.join(f.get('detected_by') or []) or 'missed')
    conf = 'yes' if m.get('confirmed') else 'NO'
    if m.get('ported'):
        conf += ' (ported)'
    rows.append((name, conf, det, first, summ))
print('| seeded change | confirmed | caught by (quick tier, current checks) | first evaluation (if different) | what it does |')
print('|---|---|---|---|---|')
for r in rows:
    print('| %s | %s | %s | %s | %s |' % r)
