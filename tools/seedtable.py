#!/usr/bin/env python3
"""Prints the markdown table of seeded defects (from seeded/*/meta.json)."""
import json, glob, os
rows = []
for d in sorted(glob.glob('/verif/seeded/*')):
    m = json.load(open(os.path.join(d, 'meta.json')))
    a = m.get('agent_meta', {})
    name = os.path.basename(d)
    summ = (a.get('summary') or '').replace('\n', ' ').replace('|', '/')
    if len(summ) > 230:
        summ = summ[:227] + '...'
    det = ', '.join(m.get('detected_by') or []) or '-'
    tried = ', '.join(sorted(m.get('check_results', {}).keys()))
    rows.append((name, 'yes' if m.get('confirmed') else 'NO', tried, det, summ))
print('| seeded change | confirmed | checks run | caught by | what it does |')
print('|---|---|---|---|---|')
for r in rows:
    print('| %s | %s | %s | %s | %s |' % r)
