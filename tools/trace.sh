#!/bin/sh
# usage: tools/trace.sh <replay.json> [repo-dir] [test-name] [go test args...]
#   TestTrace: prints the state after every item of a file program (VERIF_TRACE_FAULT=kind,ordinal,burst,mode arms a fault)
#   TestTraceFaults: complete fault sweep, prints every plan before it runs
f=$(readlink -f "$1"); repo=${2:-/repo}; test=${3:-TestTrace}
[ $# -ge 3 ] && shift 3 || shift $#
tmp=$(mktemp -d /tmp/altverif.XXXXXX)
rsync -a --exclude .git --exclude .build --exclude replays /verif/ $tmp/
cd $tmp || exit 2
export GOFLAGS=-mod=mod GOPROXY=off GOSUMDB=off GOTOOLCHAIN=local
go mod edit -replace github.com/elastic/go-txfile=$repo
VERIF_TRACE=$f go test -tags verif -count=1 -v -run "^$test\$" "$@" ./checks 2>&1 | cut -c1-1500
rm -rf $tmp
