#!/bin/sh
# usage: tools/trace.sh <replay.json> [repo-dir]   prints the state after every item of a file program
f=$(readlink -f "$1"); repo=${2:-/repo}
tmp=$(mktemp -d /tmp/altverif.XXXXXX)
rsync -a --exclude .git --exclude .build --exclude replays /verif/ $tmp/
cd $tmp || exit 2
export GOFLAGS=-mod=mod GOPROXY=off GOSUMDB=off GOTOOLCHAIN=local
go mod edit -replace github.com/elastic/go-txfile=$repo
VERIF_TRACE=$f go test -tags verif -count=1 -run '^TestTrace$' ./checks 2>&1 | cut -c1-1500
rm -rf $tmp
