#!/usr/bin/env python3-vt
"""Validates MANIFEST.json and evidence/*.json against the schemas in /root/.vp."""
import json, glob, sys, jsonschema
ms = json.load(open('/root/.vp/MANIFEST.schema.json'))
es = json.load(open('/root/.vp/EVIDENCE.schema.json'))
m = json.load(open('/verif/MANIFEST.json'))
jsonschema.validate(m, ms)
props = [json.loads(l)['id'] for l in open('/verif/properties.jsonl')]
claimed = [c['property_id'] for c in m['checks']]
na = [c['property_id'] for c in m.get('not_applicable', [])]
assert sorted(claimed + na) == sorted(props), (claimed, na)
bad = 0
for c in m['checks']:
    f = c['evidence_file']
    try:
        e = json.load(open(f))
        jsonschema.validate(e, es)
        assert e['property_id'] == c['property_id']
        assert e['level'] == c['level_claimed']['category'], (e['level'], c['level_claimed']['category'])
        cov = e['coverage']
        print('%s %-8s level=%-18s evals=%-7d nontrivial=%-6d violations=%d wall=%.0fs' % (c['property_id'], e['tier'], e['level'], cov['evaluations'], cov['distinct_nontrivial'], e.get('violations', 0), e['wall_s']))
    except Exception as ex:
        bad += 1
        print('INVALID', f, ex)
sys.exit(1 if bad else 0)
